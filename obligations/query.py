"""C10 (lookups), C08 (half-entity views, next/prev), C01 (cache readers, is_boundary, valence), C20 (frame): queries on
constructive shapes built through the real construction API (spec/shapes.h), arguments symbolic over the whole handle
range of the shape; every query must also leave the complete state unchanged (same_state: write frame, C20)."""
from run import Ob
from obligations._mesh import MeshHarness
TK = 'OpenVolumeMesh::TopologyKernel'

SHAPES = {'tet': 0, 'prism': 1, 'twotets': 2, 'quadpillow': 3, 'open': 4}
# loop bounds large enough for every shape
DEFS = dict(LV=7, LE=9, LF=7, LC=2, LFV=4, LCV=5, LOUT=4, LINC=3, PV=7, PE=9, PF=7, PC=2, PFV=4, PCV=5, POUT=4, PINC=3,
            CFG_V=1, CFG_E=1, CFG_F=1, CFG_DEFERRED=1, CFG_FAST=1, VSTD_CAP_DEFAULT=18)
ROOTS_BUILD = [TK + '::add_vertex', (TK + '::add_face', 'const std::vector<VertexHandle> &'), (TK + '::add_face', 'std::vector<HalfEdgeHandle>, bool'), TK + '::add_cell', TK + '::add_edge']

def A(cond, name, n, p='C10'): return '  __CPROVER_assert(%s, "%s.%s.%s");' % (cond, p, n, name)
def rng(v, n): return '0 <= %s && (unsigned long)%s < %s' % (v, v, n)
NV, NE, NF, NC = 'm.n_vertices_', 'm.edges_.size', 'm.faces_.size', 'm.cells_.size'
def vlist(k):
    """symbolic vertex tuple of length k..kmax into arg (vec_VH) and ovm_list"""
    return '''  int n = LISTN(); __CPROVER_assume(%d <= n && n <= 4);
  struct vec_VH arg; vec_VH_init(&arg); ovm_list_n = n;
  for (int i = 0; i < 4; i++) if (i < n) { int x = LISTV(i); __CPROVER_assume(0 <= x && (unsigned long)x < m.n_vertices_); ovm_list[i] = x; struct VH hx; hx.idx_ = x; vec_VH_push_back(&arg, hx); }''' % k

# name -> dict(props, roots, args, call, post, op, shapes)
Q = {}
Q['find_halfedge'] = dict(props=['C10'], roots=[TK + '::find_halfedge'], args='  int a = ARG(0), b = ARG(1);\n  __CPROVER_assume(%s && %s);' % (rng('a', NV), rng('b', NV)),
    call='  { struct VH x; x.idx_ = a; struct VH y; y.idx_ = b; ret = TopologyKernel__find_halfedge(&m, x, y).idx_; }', op='find_halfedge',
    post=lambda n: [A('ret == -1 || (0 <= ret && (unsigned long)ret < 2 * m.edges_.size && !EDEL(&m, ret >> 1) && HEFROM(&m, ret) == a && HETO(&m, ret) == b)', 'sound: result is a live halfedge a -> b', n),
                    A('ret != -1 || !spec_live_he(&m, a, b)', 'complete: invalid only if no live halfedge a -> b exists', n)], shapes=['tet', 'prism', 'open'])
Q['find_halfedge_in_cell'] = dict(props=['C10'], roots=[TK + '::find_halfedge_in_cell'], args='  int a = ARG(0), b = ARG(1), c = ARG(2);\n  __CPROVER_assume(%s && %s && %s); if (m.cells_.size == 1) c = 0;' % (rng('a', NV), rng('b', NV), rng('c', NC)),
    call='  { struct VH x; x.idx_ = a; struct VH y; y.idx_ = b; struct CH z; z.idx_ = c; ret = TopologyKernel__find_halfedge_in_cell(&m, x, y, z).idx_; }', op='find_halfedge_in_cell',
    post=lambda n: ['  _Bool in_cell = 0; _Bool any = 0;\n  for (unsigned long k = 0; k < LCV; k++) if (k < CVAL(&m, c)) for (unsigned long j = 0; j < LFV; j++) if (j < FVAL(&m, CHF(&m, c, k) >> 1)) { int he = spec_hf_he(&m, CHF(&m, c, k), j); if (ret >= 0 && (he >> 1) == (ret >> 1)) in_cell = 1; if ((HEFROM(&m, he) == a && HETO(&m, he) == b) || (HEFROM(&m, he) == b && HETO(&m, he) == a)) any = 1; }',
                    A('ret == -1 || (0 <= ret && (unsigned long)ret < 2 * m.edges_.size && HEFROM(&m, ret) == a && HETO(&m, ret) == b && in_cell)', 'sound: result runs a -> b and its edge belongs to the cell', n),
                    A('(ret != -1) == any', 'complete: found exactly when an edge of the cell joins a and b', n)], shapes=['tet', 'prism', 'twotets'])
Q['find_halfface_vertices'] = dict(props=['C10'], roots=[(TK + '::find_halfface', 'const std::vector<VertexHandle> &')], args=vlist(3),
    call='  ret = TopologyKernel__find_halfface__std_vector_VH__r_c(&m, &arg).idx_;', op='find_halfface_v', list_arg=True,
    post=lambda n: ['  _Bool ex = 0; for (unsigned long hf = 0; hf < 2 * LF; hf++) if (hf < 2 * m.faces_.size && !FDEL(&m, hf >> 1) && spec_consecutive3(&m, (int)hf, ovm_list[0], ovm_list[1], ovm_list[2])) ex = 1;',
                    A('ret == -1 || (0 <= ret && (unsigned long)ret < 2 * m.faces_.size && !FDEL(&m, ret >> 1) && spec_consecutive3(&m, ret, ovm_list[0], ovm_list[1], ovm_list[2]))', 'sound: result is a live halfface with v0,v1,v2 consecutive in its cycle (documented: only the first three vertices are compared)', n),
                    A('(ret != -1) == ex', 'complete: found exactly when such a halfface exists', n)], shapes=['tet', 'prism', 'open'])
Q['find_halfface_halfedges'] = dict(props=['C10'], roots=[(TK + '::find_halfface', 'const std::vector<HalfEdgeHandle> &')],
    args='  int a = ARG(0), b = ARG(1);\n  __CPROVER_assume(%s && %s);\n  struct vec_HEH arg; vec_HEH_init(&arg); { struct HEH x; x.idx_ = a; vec_HEH_push_back(&arg, x); x.idx_ = b; vec_HEH_push_back(&arg, x); } ovm_list_n = 2; ovm_list[0] = a; ovm_list[1] = b;' % (rng('a', '2 * ' + NE), rng('b', '2 * ' + NE)),
    call='  ret = TopologyKernel__find_halfface__std_vector_HEH__r_c(&m, &arg).idx_;', op='find_halfface_he', list_arg=True,
    post=lambda n: ['  _Bool ex = 0; for (unsigned long hf = 0; hf < 2 * LF; hf++) if (hf < 2 * m.faces_.size && !FDEL(&m, hf >> 1) && spec_he_in_hf(&m, (int)hf, a) && spec_he_in_hf(&m, (int)hf, b)) ex = 1;',
                    A('ret == -1 || (0 <= ret && (unsigned long)ret < 2 * m.faces_.size && !FDEL(&m, ret >> 1) && spec_he_in_hf(&m, ret, a) && spec_he_in_hf(&m, ret, b))', 'sound: result is a live halfface containing both halfedges', n),
                    A('(ret != -1) == ex', 'complete', n)], shapes=['tet', 'prism'])
Q['find_halfface_extensive'] = dict(props=['C10'], roots=[TK + '::find_halfface_extensive'], args=vlist(3),
    call='  ret = TopologyKernel__find_halfface_extensive(&m, &arg).idx_;', op='find_halfface_extensive', list_arg=True,
    post=lambda n: ['  _Bool ex = 0; for (unsigned long hf = 0; hf < 2 * LF; hf++) if (hf < 2 * m.faces_.size && !FDEL(&m, hf >> 1) && spec_cycle_equals(&m, (int)hf, ovm_list, n)) ex = 1;',
                    A('ret == -1 || (0 <= ret && (unsigned long)ret < 2 * m.faces_.size && !FDEL(&m, ret >> 1) && spec_cycle_equals(&m, ret, ovm_list, n))', 'sound: the result\'s vertex cycle, started at v0, is exactly the requested tuple', n),
                    A('(ret != -1) == ex', 'complete: found exactly when a live halfface has that cycle', n)], shapes=['tet', 'prism', 'quadpillow'])
Q['find_halfface_in_cell'] = dict(props=['C10'], roots=[TK + '::find_halfface_in_cell'], args=vlist(3) + '\n  int c = ARG(0); __CPROVER_assume(%s); if (m.cells_.size == 1) c = 0;' % rng('c', NC),
    call='  { struct CH z; z.idx_ = c; ret = TopologyKernel__find_halfface_in_cell(&m, &arg, z).idx_; }', op='find_halfface_in_cell', list_arg=True,
    post=lambda n: ['  _Bool ex = 0; for (unsigned long k = 0; k < LCV; k++) if (k < CVAL(&m, c) && spec_consecutive3(&m, CHF(&m, c, k), ovm_list[0], ovm_list[1], ovm_list[2])) ex = 1;',
                    A('ret == -1 || (spec_hf_in_cell(&m, c, ret) && spec_consecutive3(&m, ret, ovm_list[0], ovm_list[1], ovm_list[2]))', 'sound: result is a halfface of the cell with v0,v1,v2 consecutive', n),
                    A('(ret != -1) == ex', 'complete', n)], shapes=['tet', 'quadpillow'])      # prism: out of memory, two-tets: > 15 min - not registered
for form, extra, call, op in (('', '', 'TopologyKernel__get_halfface_vertices__HFH_c(&m, h)', 'get_halfface_vertices'),
                              ('_from_vertex', '  int b = ARG(1); __CPROVER_assume(%s);' % rng('b', NV), 'TopologyKernel__get_halfface_vertices__HFH_VH_c(&m, h, (struct VH){b})', 'get_halfface_vertices_vh'),
                              ('_from_halfedge', '  int b = ARG(1); __CPROVER_assume(%s);' % rng('b', '2 * ' + NE), 'TopologyKernel__get_halfface_vertices__HFH_HEH_c(&m, h, (struct HEH){b})', 'get_halfface_vertices_heh')):
    start = {'': 'spec_hf_vertex(&m, a, 0)', '_from_vertex': 'b', '_from_halfedge': 'HEFROM(&m, b)'}[form]
    Q['get_halfface_vertices' + form] = dict(props=['C10'], roots=[TK + '::get_halfface_vertices'], args='  int a = ARG(0); __CPROVER_assume(%s);\n%s' % (rng('a', '2 * ' + NF), extra),
        call='  { struct HFH h; h.idx_ = a; struct vec_VH r = %s; rn = (int)r.size; for (int i = 0; i < 8; i++) if (i < rn) rv[i] = r.data[i].idx_; }' % call, op=op,
        post=lambda n, start=start: ['  unsigned long fv = FVAL(&m, a >> 1); int s0 = -1; for (unsigned long k = 0; k < LFV; k++) if (k < fv && s0 < 0 && spec_hf_vertex(&m, a, k) == %s) s0 = (int)k;' % start,
                        A('rn == (int)fv', 'one entry per vertex of the halfface', n),
                        A('s0 < 0 || g_k < 0 || g_k >= rn || rv[g_k] == spec_hf_vertex(&m, a, ((unsigned long)s0 + (unsigned long)g_k) % fv)', 'entries follow the halfface\'s cyclic order starting at the requested vertex', n)], shapes=['tet', 'prism'])
Q['is_incident'] = dict(props=['C10'], roots=[TK + '::is_incident'], args='  int a = ARG(0), b = ARG(1);\n  __CPROVER_assume(%s && %s);' % (rng('a', NF), rng('b', NE)),
    call='  { struct FH x; x.idx_ = a; struct EH y; y.idx_ = b; ret = TopologyKernel__is_incident(&m, x, y); }', op='is_incident',
    post=lambda n: ['  _Bool ex = 0; for (unsigned long k = 0; k < LFV; k++) if (k < FVAL(&m, a) && (FHE(&m, a, k) >> 1) == b) ex = 1;', A('(ret != 0) == ex', 'true exactly when the face lists a halfedge of the edge', n)], shapes=['prism', 'open'])
Q['n_vertices_in_cell'] = dict(props=['C10'], roots=[TK + '::n_vertices_in_cell'], args='  int a = ARG(0); __CPROVER_assume(%s); if (m.cells_.size == 1) a = 0;' % rng('a', NC),
    call='  { struct CH x; x.idx_ = a; ret = (int)TopologyKernel__n_vertices_in_cell(&m, x); }', op='n_vertices_in_cell',
    post=lambda n: [A('ret == (int)spec_n_vertices_in_cell(&m, a)', 'number of distinct vertices on the cell\'s halffaces', n)], shapes=['tet', 'prism', 'twotets', 'quadpillow'])
# ---- C08: cyclic steps and mirror views
for d, op in (('next', 'next_halfedge_in_halfface'), ('prev', 'prev_halfedge_in_halfface')):
    Q[op] = dict(props=['C08'], roots=[TK + '::' + op], args='  int a = ARG(0), b = ARG(1);\n  __CPROVER_assume(%s && %s);' % (rng('a', '2 * ' + NE), rng('b', '2 * ' + NF)),
        call='  { struct HEH x; x.idx_ = a; struct HFH y; y.idx_ = b; ret = TopologyKernel__%s(&m, x, y).idx_; }' % op, op=op,
        post=lambda n, d=d: ['  unsigned long fv = FVAL(&m, b >> 1); int pos = -1; for (unsigned long k = 0; k < LFV; k++) if (k < fv && pos < 0 && spec_hf_he(&m, b, k) == a) pos = (int)k;',
                        A('pos >= 0 || ret == -1', 'invalid when the halfedge is not on the halfface', n, 'C08'),
                        A('pos < 0 || ret == spec_hf_he(&m, b, ((unsigned long)pos + %s) %% fv)' % ('1' if d == 'next' else 'fv - 1'), 'result is the cyclic %s of the halfedge on that side of the face' % ('successor' if d == 'next' else 'predecessor'), n, 'C08'),
                        A('pos < 0 || %s' % ('HETO(&m, a) == HEFROM(&m, ret)' if d == 'next' else 'HETO(&m, ret) == HEFROM(&m, a)'), 'consecutive halfedges are connected (closed loop)', n, 'C08')], shapes=['tet', 'prism', 'quadpillow', 'open'])
Q['prev_of_next'] = dict(props=['C08'], roots=[TK + '::next_halfedge_in_halfface', TK + '::prev_halfedge_in_halfface'], args='  int a = ARG(0), b = ARG(1);\n  __CPROVER_assume(%s && %s);' % (rng('a', '2 * ' + NE), rng('b', '2 * ' + NF)),
    call='  { struct HEH x; x.idx_ = a; struct HFH y; y.idx_ = b; struct HEH nx = TopologyKernel__next_halfedge_in_halfface(&m, x, y); ret = nx.idx_ < 0 ? -1 : TopologyKernel__prev_halfedge_in_halfface(&m, nx, y).idx_; }', op='prev_next',
    post=lambda n: [A('ret == -1 || ret == a', 'prev(next(h)) == h: inverse steps along the cycle', n, 'C08'), A('(ret == -1) == !spec_he_in_hf(&m, b, a)', 'defined exactly for halfedges of the halfface', n, 'C08')], shapes=['tet', 'prism', 'quadpillow', 'open'])
Q['halfface_view'] = dict(props=['C08'], roots=[(TK + '::halfface', 'OpenVolumeMeshFace (OpenVolumeMesh::HalfFaceHandle)')], args='  int a = ARG(0); __CPROVER_assume(%s);' % rng('a', '2 * ' + NF),
    call='  { struct HFH h; h.idx_ = a; struct OpenVolumeMeshFace f = TopologyKernel__halfface__HFH_c(&m, h); rn = (int)f.halfedges_.size; for (int i = 0; i < 8; i++) if (i < rn) rv[i] = f.halfedges_.data[i].idx_; }', op='halfface_view',
    post=lambda n: ['  unsigned long fv = FVAL(&m, a >> 1);', A('rn == (int)fv', 'same valence on both sides', n, 'C08'),
                    A('g_k < 0 || g_k >= rn || rv[g_k] == ((a & 1) ? (FHE(&m, a >> 1, fv - 1 - (unsigned long)g_k) ^ 1) : FHE(&m, a >> 1, g_k))', 'side 0 is the stored list; side 1 lists the opposite halfedges in reverse order', n, 'C08')], shapes=['prism', 'quadpillow'])
Q['halfedge_view'] = dict(props=['C08'], roots=[(TK + '::halfedge', 'OpenVolumeMeshEdge (OpenVolumeMesh::HalfEdgeHandle)')], args='  int a = ARG(0); __CPROVER_assume(%s);' % rng('a', '2 * ' + NE),
    call='  { struct HEH h; h.idx_ = a; struct OpenVolumeMeshEdge e = TopologyKernel__halfedge__HEH_c(&m, h); rn = 2; rv[0] = e.fromVertex_.idx_; rv[1] = e.toVertex_.idx_; }', op='halfedge_view',
    post=lambda n: [A('rv[0] == ((a & 1) ? ETO(&m, a >> 1) : EFROM(&m, a >> 1)) && rv[1] == ((a & 1) ? EFROM(&m, a >> 1) : ETO(&m, a >> 1))', 'the opposite halfedge swaps source and target', n, 'C08')], shapes=['prism', 'open'])
# ---- C01: cache readers against brute-force scans
Q['incident_cell'] = dict(props=['C01'], roots=[TK + '::incident_cell'], args='  int a = ARG(0); __CPROVER_assume(%s);' % rng('a', '2 * ' + NF),
    call='  { struct HFH h; h.idx_ = a; ret = TopologyKernel__incident_cell(&m, h).idx_; }', op='incident_cell',
    post=lambda n: [A('ret == spec_incident_cell(&m, a)', 'the live cell listing the halfface, or invalid', n, 'C01')], shapes=['twotets', 'prism'])
Q['valence_vertex'] = dict(props=['C01'], roots=[(TK + '::valence', 'OpenVolumeMesh::VertexHandle')], args='  int a = ARG(0); __CPROVER_assume(%s);' % rng('a', NV),
    call='  { struct VH h; h.idx_ = a; ret = (int)TopologyKernel__valence__VH_c(&m, h); }', op='valence_v',
    post=lambda n: [A('ret == (int)spec_valence_vertex(&m, a)', 'number of live halfedges leaving the vertex', n, 'C01')], shapes=['prism', 'open'])
Q['valence_edge'] = dict(props=['C01'], roots=[(TK + '::valence', 'OpenVolumeMesh::EdgeHandle')], args='  int a = ARG(0); __CPROVER_assume(%s);' % rng('a', NE),
    call='  { struct EH h; h.idx_ = a; ret = (int)TopologyKernel__valence__EH_c(&m, h); }', op='valence_e',
    post=lambda n: [A('ret == (int)spec_valence_edge(&m, a)', 'number of live faces around the edge', n, 'C01')], shapes=['twotets', 'open'])
for kind, H, sig, N, spec, op in (('halfface', 'HFH', 'OpenVolumeMesh::HalfFaceHandle', '2 * ' + NF, 'spec_incident_cell(&m, a) == -1', 'is_boundary_hf'),
                                  ('face', 'FH', 'OpenVolumeMesh::FaceHandle', NF, 'spec_boundary_face(&m, a)', 'is_boundary_f'),
                                  ('edge', 'EH', 'OpenVolumeMesh::EdgeHandle', NE, 'spec_boundary_halfedge(&m, 2 * a)', 'is_boundary_e'),
                                  ('halfedge', 'HEH', 'OpenVolumeMesh::HalfEdgeHandle', '2 * ' + NE, 'spec_boundary_halfedge(&m, a)', 'is_boundary_he'),
                                  ('vertex', 'VH', 'OpenVolumeMesh::VertexHandle', NV, 'spec_boundary_vertex(&m, a)', 'is_boundary_v'),
                                  ('cell', 'CH', 'OpenVolumeMesh::CellHandle', NC, 'spec_boundary_cell(&m, a)', 'is_boundary_c')):
    Q['is_boundary_' + kind] = dict(props=['C01'], roots=[(TK + '::is_boundary', sig)], args='  int a = ARG(0); __CPROVER_assume(%s);' % rng('a', N),
        call='  { struct %s h; h.idx_ = a; ret = TopologyKernel__is_boundary__%s_c(&m, h); }' % (H, H), op=op,
        post=lambda n, spec=spec: [A('(ret != 0) == (%s)' % spec, 'agrees with the brute-force scan over the stored definitions', n, 'C01')], shapes=['twotets', 'open'] if kind != 'cell' else ['twotets'])
Q['adjacent_halfface_in_cell'] = dict(props=['C09'], roots=[TK + '::adjacent_halfface_in_cell'], args='  int a = ARG(0), b = ARG(1);\n  __CPROVER_assume(%s && %s);' % (rng('a', '2 * ' + NF), rng('b', '2 * ' + NE)),
    call='  { struct HFH x; x.idx_ = a; struct HEH y; y.idx_ = b; ret = TopologyKernel__adjacent_halfface_in_cell(&m, x, y).idx_; if (ret >= 0) { struct HFH r1; r1.idx_ = ret; struct HEH yo; yo.idx_ = b ^ 1; rv[0] = TopologyKernel__adjacent_halfface_in_cell(&m, r1, yo).idx_; } }', op='adjacent_halfface_in_cell',
    post=lambda n: ['  int c = spec_incident_cell(&m, a); _Bool on = spec_he_in_hf(&m, a, b) || spec_he_in_hf(&m, a, b ^ 1); int use = spec_he_in_hf(&m, a, b) ? b : (b ^ 1);',
                    '  int other = -1; int cnt = 0; if (c >= 0 && on) for (unsigned long k = 0; k < LCV; k++) if (k < CVAL(&m, c) && CHF(&m, c, k) != a && CHF(&m, c, k) != (a ^ 1) && spec_he_in_hf(&m, CHF(&m, c, k), use ^ 1)) { other = CHF(&m, c, k); cnt++; }',
                    A('!(c >= 0 && on && cnt == 1) || ret == other', 'the unique other halfface of the cell at that edge (either orientation of the halfedge accepted)', n, 'C09'),
                    A('(c >= 0 && on) || ret == -1', 'invalid on a boundary halfface or when the halfedge is not on the halfface', n, 'C09'),
                    A('!(c >= 0 && on && cnt == 1) || MODE_IS_REAL || rv[0] == a', 'applying it twice across the same edge returns the start', n, 'C09')], shapes=['tet', 'prism', 'twotets', 'quadpillow'])

import re as _re
def wargs(args):
    w = ['0', '0', '0', '0']
    for m in _re.finditer(r'(\w+) = ARG\((\d)\)', args): w[int(m.group(2))] = m.group(1)
    return w

def obligations():
    obs = []
    for qn, q in Q.items():
        for sh in q['shapes']:
            n = '%s.%s' % (qn, sh)
            prop0 = q['props'][0]
            pre = '  TK m; { static const int W0[] = {SHAPE_W}; int aa[4]; unwitness(W0, &m, aa); }\n  __CPROVER_assert(wf(&m), "%s.%s.shape_built_by_the_real_construction_code_is_well_formed");' % (prop0, n)
            post = q['post'](n) + [A('same_state(&o, &m) && TopologyKernel__seq(&o, &m)', 'query leaves the whole mesh state unchanged (write frame: C20)', n, prop0), A('ovm_exc == 0', 'no_exception', n, prop0)]
            mh = MeshHarness(args=q['args'], call=q['call'], post='\n'.join(post), op=q['op'], pre=pre,
                             snap='  witness(&o, %s);\n  COVER(1, "reachable");' % ', '.join(wargs(q['args'])),
                             list_arg='ovm_list' if q.get('list_arg') else None)
            slow = n in ('find_halfface_in_cell.prism',)
            heavy = qn in ('find_halfedge_in_cell', 'find_halfface_in_cell', 'find_halfface_vertices', 'find_halfface_halfedges', 'find_halfface_extensive', 'adjacent_halfface_in_cell')
            qf = [] if slow else ([prop0] if (not heavy or sh in ('tet', 'quadpillow')) else [])
            if prop0 in ('C10', 'C01') and not heavy and sh in ('prism', 'open'): qf.append('C20')
            obs.append(Ob(id='%s.%s' % (prop0, n), props=q['props'] + ['C20'], quick_for=qf, tu='kernel', tier='B', roots=q['roots'] + ROOTS_BUILD, harness=mh,
                          includes=['wf.h', 'view.h', 'add_spec.h', 'query_spec.h', 'shapes.h'], copies=[TK], defines=dict(DEFS), unwind=20, covers=1, timeout=900,
                          inits={'tk_init': TK}, adaptive_unwind=True, unwind_start=7, prebuild_shape=SHAPES[sh],
                          bounds=dict(shape=sh, arguments='all handles of the shape (symbolic)'),
                          note='%s on the constructive shape "%s" built through the real add_* API; arguments symbolic over the shape\'s full handle ranges' % (qn, sh)))
    return obs
