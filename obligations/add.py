"""C11 (construction validates), tier B: add_vertex / add_edge / add_face(halfedges) / add_cell(halffaces) on
symbolic WF states with symbolic arguments (any in-range list, including empty and repeated entries: C07 kernel side).
accept <=> spec predicate; reject/dedup => state unchanged; accept => exactly one entity appended with the given
definition, default-valued property slots (C03), caches stay the inverse of the definitions (C01), for every
bottom-up subset the function reads (C12)."""
from run import Ob
from obligations._mesh import MeshHarness, caps as mcaps
TK = 'OpenVolumeMesh::TopologyKernel'
from obligations.delete import REORDER_STUB
def A(cond, name, n): return '  __CPROVER_assert(%s, "C11.%s.%s");' % (cond, n, name)
def UW(d): return 2 * max(d['LV'], d['LE'], d['LF'], d['LC'], d['LFV'], d['LCV'], d['LOUT'], d['LINC']) + 2

UNCH_V = 'm.n_vertices_ == o.n_vertices_ && map_bools(&o.vertex_deleted_, &m.vertex_deleted_, RHO_NONE, -1, LV, 0) && map_ints(&o.ghost_v, &m.ghost_v, RHO_NONE, 0, -1, LV, 0)'
UNCH_E = 'map_edges(&o, &m, RHO_NONE, RHO_NONE, 0, -1, 0) && map_bools(&o.edge_deleted_, &m.edge_deleted_, RHO_NONE, -1, LE, 0) && map_ints(&o.ghost_e, &m.ghost_e, RHO_NONE, 0, -1, LE, 0) && map_ints(&o.ghost_he, &m.ghost_he, RHO_NONE, 0, -1, 2 * LE, 0)'
UNCH_F = 'map_faces(&o, &m, RHO_NONE, RHO_NONE, 0, -1, 0) && map_bools(&o.face_deleted_, &m.face_deleted_, RHO_NONE, -1, LF, 0) && map_ints(&o.ghost_f, &m.ghost_f, RHO_NONE, 0, -1, LF, 0) && map_ints(&o.ghost_hf, &m.ghost_hf, RHO_NONE, 0, -1, 2 * LF, 0)'
UNCH_C = 'map_cells(&o, &m, RHO_NONE, RHO_NONE, 0, -1, 0) && map_bools(&o.cell_deleted_, &m.cell_deleted_, RHO_NONE, -1, LC, 0) && map_ints(&o.ghost_c, &m.ghost_c, RHO_NONE, 0, -1, LC, 0)'

def list_args(elem, maxn, rng, live, extra=''):
    return '''  int n = LISTN(); __CPROVER_assume(0 <= n && n <= %(maxn)s);
  struct vec_%(E)s arg; vec_%(E)s_init(&arg);
  ovm_list_n = n;
  for (int i = 0; i < %(maxn)s; i++) if (i < n) {
    int x = LISTV(i); __CPROVER_assume(0 <= x && (unsigned long)x < %(rng)s && %(live)s); %(extra)s
    ovm_list[i] = x; struct %(E)s hx; hx.idx_ = x; vec_%(E)s_push_back(&arg, hx);
  }
  int check = ARG(0); __CPROVER_assume(check == 0 || check == 1);''' % dict(E=elem, maxn=maxn, rng=rng, live=live, extra=extra)

def obligations():
    obs = []
    # ---------------------------------------------------------------- add_vertex
    for on in ('', 'v'):
        n = 'add_vertex.bu_%s' % (on or 'none')
        d = mcaps(v=2, e=1, f=1, c=0, fv=2, cv=1, out=2, inc=2, gv=1)
        d.update(CFG_V=int('v' in on), CFG_E=0, CFG_F=0, CFG_DEFERRED=1, CFG_FAST=1)
        post = '\n'.join([A('ovm_exc == 0', 'no_exception', n), A('wf(&m)', 'wf_preserved', n),
                          A('ret == (int)o.n_vertices_ && m.n_vertices_ == o.n_vertices_ + 1', 'exactly_one_vertex_appended', n),
                          A('ext_bools(&o.vertex_deleted_, &m.vertex_deleted_, 1, LV) && !VDEL(&m, ret)', 'flags_extended_new_vertex_live', n),
                          A('ext_ints(&o.ghost_v, &m.ghost_v, 1, LV)', 'vertex_props_extended_with_default (C03)', n),
                          A(' && '.join([UNCH_E, UNCH_F, UNCH_C, 'same_modes(&o, &m) && same_counters(&o, &m)']), 'everything_else_unchanged', n)])
        mh = MeshHarness(args='', snap='  witness(&o, 0, 0, 0, 0);\n  COVER(1, "reachable");\n  COVER(m.n_vertices_ > 0, "non-empty mesh");',
                         call='  { struct VH r = TopologyKernel__add_vertex(&m); ret = r.idx_; }', post=post, op='add_vertex')
        obs.append(Ob(id='C11.' + n, props=['C11', 'C01', 'C03', 'C12'], quick_for=['C11', 'C03'], tu='kernel', tier='B', roots=[TK + '::add_vertex'], harness=mh,
                      includes=['wf.h', 'view.h', 'add_spec.h'], copies=[TK], defines=d, unwind=UW(d), covers=2, timeout=600,
                      bounds=dict(vertices='2 (+1)', edges=1, faces=1), note='add_vertex; vertex bottom-up %s' % ('on' if on else 'off')))
    # ---------------------------------------------------------------- add_edge
    for on in ('', 'v', 'e', 've'):
        n = 'add_edge.bu_%s' % (on or 'none')
        d = mcaps(v=2, e=2, f=1, c=0, fv=2, cv=1, out=2, inc=2, ge=1, gout=2)
        d.update(CFG_V=int('v' in on), CFG_E=int('e' in on), CFG_F=0, CFG_DEFERRED=1, CFG_FAST=1)
        post = '\n'.join([
            '  _Bool exists = spec_live_edge_between(&o, a, b);',
            A('ovm_exc == 0', 'no_exception', n), A('wf(&m)', 'wf_preserved (C01)', n),
            A('!(exists && !dup) || (ret >= 0 && (unsigned long)ret < o.edges_.size && !EDEL(&o, ret) && ((EFROM(&o, ret) == a && ETO(&o, ret) == b) || (EFROM(&o, ret) == b && ETO(&o, ret) == a)))', 'dedup_returns_an_existing_live_edge_between_the_vertices', n),
            A('!(exists && !dup) || same_state(&o, &m)', 'dedup_leaves_the_mesh_unchanged', n),
            A('(exists && !dup) || (ret == (int)o.edges_.size && ext_edges(&o, &m, 1) && EFROM(&m, ret) == a && ETO(&m, ret) == b)', 'otherwise_exactly_one_edge_appended_with_the_given_definition', n),
            A('(exists && !dup) || (ext_bools(&o.edge_deleted_, &m.edge_deleted_, 1, LE) && !EDEL(&m, ret))', 'new_edge_live', n),
            A('(exists && !dup) || (ext_ints(&o.ghost_e, &m.ghost_e, 1, LE) && ext_ints(&o.ghost_he, &m.ghost_he, 2, 2 * LE))', 'edge_and_halfedge_props_extended_with_default (C03)', n),
            A(' && '.join([UNCH_V, UNCH_F, UNCH_C, 'same_modes(&o, &m) && same_counters(&o, &m)']), 'entities_of_other_kinds_unchanged', n)])
        mh = MeshHarness(args='  int a = ARG(0), b = ARG(1), dup = ARG(2);\n  __CPROVER_assume(0 <= a && (unsigned long)a < m.n_vertices_ && 0 <= b && (unsigned long)b < m.n_vertices_ && !VDEL(&m, a) && !VDEL(&m, b) && (dup == 0 || dup == 1));',
                         snap='  witness(&o, a, b, dup, 0);\n  COVER(!dup && spec_live_edge_between(&m, a, b), "duplicate request");\n  COVER(!dup && !spec_live_edge_between(&m, a, b) && m.edges_.size > 0, "fresh edge in a non-empty mesh");',
                         call='  { struct VH ha; ha.idx_ = a; struct VH hb; hb.idx_ = b; struct EH r = TopologyKernel__add_edge(&m, ha, hb, dup); ret = r.idx_; }',
                         post=post, op='add_edge')
        obs.append(Ob(id='C11.' + n, props=['C11', 'C01', 'C03', 'C12'], quick_for=['C11', 'C03'] + (['C01'] if on == 've' else []), tu='kernel', tier='B', roots=[TK + '::add_edge'], harness=mh,
                      includes=['wf.h', 'view.h', 'add_spec.h'], copies=[TK], defines=d, unwind=UW(d), covers=2, timeout=900,
                      bounds=dict(vertices=2, edges='2 (+1)', faces=1, outgoing_list='2 (+2)'), note='add_edge(a, b, allowDuplicates) with symbolic arguments; bottom-up kinds enabled: %s' % (on or 'none')))
    # ---------------------------------------------------------------- add_face(halfedges, check)
    for on in ('', 'e', 'f', 'ef'):
        n = 'add_face.bu_%s' % (on or 'none')
        d = mcaps(v=2, e=2, f=1, c=1, fv=2, cv=2, out=2, inc=1, gf=1, ginc=2)
        d.update(CFG_V=0, CFG_E=int('e' in on), CFG_F=int('f' in on), CFG_DEFERRED=1, CFG_FAST=1)
        post = '\n'.join([
            '  _Bool closed = spec_closed_loop(&o, ovm_list, n);',
            A('ovm_exc == 0', 'no_exception', n), A('wf(&m)', 'wf_preserved (C01)', n),
            A('!(check && !closed) || (ret == -1 && same_state(&o, &m))', 'rejected_call_returns_invalid_and_changes_nothing', n),
            A('(check && !closed) || (ret == (int)o.faces_.size && ext_faces(&o, &m, 1) && FVAL(&m, ret) == (unsigned long)n)', 'accepted_call_appends_exactly_one_face', n),
            A('(check && !closed) || g_k < 0 || g_k >= n || FHE(&m, o.faces_.size, g_k) == ovm_list[g_k]', 'new_face_has_exactly_the_given_halfedges_in_order', n),
            A('(check && !closed) || (ext_bools(&o.face_deleted_, &m.face_deleted_, 1, LF) && !FDEL(&m, o.faces_.size))', 'new_face_live', n),
            A('(check && !closed) || (ext_ints(&o.ghost_f, &m.ghost_f, 1, LF) && ext_ints(&o.ghost_hf, &m.ghost_hf, 2, 2 * LF))', 'face_and_halfface_props_extended_with_default (C03)', n),
            A(' && '.join([UNCH_V, UNCH_E, UNCH_C, 'same_modes(&o, &m) && same_counters(&o, &m)']), 'entities_of_other_kinds_unchanged', n)])
        mh = MeshHarness(args=list_args('HEH', 'PFV', '2 * m.edges_.size', '!EDEL(&m, x >> 1)'),
                         snap='  witness(&o, check, 0, 0, 0);\n  COVER(check && n > 0 && spec_closed_loop(&m, ovm_list, n), "accepted closed loop");\n  COVER(check && n > 0 && !spec_closed_loop(&m, ovm_list, n), "rejected open chain");',
                         call='  { struct FH r = TopologyKernel__add_face__std_vector_HEH_bool(&m, arg, check); ret = r.idx_; }', post=post, op='add_face', list_arg='ovm_list')
        obs.append(Ob(id='C11.' + n, props=['C11', 'C01', 'C03', 'C12', 'C07'], quick_for=['C11', 'C03'] + (['C01', 'C07'] if on == 'ef' else []), tu='kernel', tier='B', roots=[(TK + '::add_face', 'std::vector<HalfEdgeHandle>, bool')], harness=mh,
                      includes=['wf.h', 'view.h', 'add_spec.h'], copies=[TK], defines=d, unwind=UW(d), covers=2, timeout=900,
                      bounds=dict(vertices=2, edges=2, faces='1 (+1)', cells=1, list_length=2), note='add_face(halfedges, topologyCheck) with a symbolic list (empty and repeated entries included); bottom-up kinds enabled: %s' % (on or 'none')))
    # ---------------------------------------------------------------- add_cell(halffaces, check)
    for on in ('', 'e', 'f', 'ef'):
        n = 'add_cell.bu_%s' % (on or 'none')
        d = mcaps(v=1, e=2, f=2, c=1, fv=2, cv=2, out=2, inc=2, gc=1)
        d.update(CFG_V=0, CFG_E=int('e' in on), CFG_F=int('f' in on), CFG_DEFERRED=1, CFG_FAST=1)
        post = '\n'.join([
            '  _Bool closed = spec_closed_surface(&o, ovm_list, n);',
            A('ovm_exc == 0', 'no_exception', n), A('wf(&m)', 'wf_preserved (C01)', n),
            A('!(check && !closed) || (ret == -1 && same_state(&o, &m))', 'rejected_call_returns_invalid_and_changes_nothing', n),
            A('(check && !closed) || (ret == (int)o.cells_.size && ext_cells(&o, &m, 1) && CVAL(&m, ret) == (unsigned long)n)', 'accepted_call_appends_exactly_one_cell', n),
            A('(check && !closed) || g_k < 0 || g_k >= n || CHF(&m, o.cells_.size, g_k) == ovm_list[g_k]', 'new_cell_has_exactly_the_given_halffaces_in_order', n),
            A('(check && !closed) || (ext_bools(&o.cell_deleted_, &m.cell_deleted_, 1, LC) && !CDEL(&m, o.cells_.size))', 'new_cell_live', n),
            A('(check && !closed) || ext_ints(&o.ghost_c, &m.ghost_c, 1, LC)', 'cell_props_extended_with_default (C03)', n),
            A(' && '.join([UNCH_V, UNCH_E, UNCH_F, 'same_modes(&o, &m) && same_counters(&o, &m)']), 'entities_of_other_kinds_unchanged', n)])
        mh = MeshHarness(args=list_args('HFH', 'PCV', '2 * m.faces_.size', '!FDEL(&m, x >> 1)', extra='__CPROVER_assume(!spec_hf_in_live_cell(&m, x));'),
                         snap='  witness(&o, check, 0, 0, 0);\n  COVER(check && n > 0 && spec_closed_surface(&m, ovm_list, n), "accepted closed surface");\n  COVER(check && n > 0 && !spec_closed_surface(&m, ovm_list, n), "rejected open surface");',
                         call='  { struct CH r = TopologyKernel__add_cell(&m, arg, check); ret = r.idx_; }', post=post, op='add_cell', list_arg='ovm_list')
        obs.append(Ob(id='C11.' + n, props=['C11', 'C01', 'C03', 'C12', 'C07'], quick_for=['C11', 'C03'] + (['C01', 'C07'] if on == 'ef' else []), tu='kernel', tier='B', roots=[TK + '::add_cell'], harness=mh, stubs=REORDER_STUB,
                      includes=['wf.h', 'view.h', 'add_spec.h'], copies=[TK], defines=d, unwind=UW(d), covers=2, timeout=900,
                      bounds=dict(vertices=1, edges=2, faces=2, cells='1 (+1)', face_valence=2, list_length=2), note='add_cell(halffaces, topologyCheck) with a symbolic list of free halffaces (empty and repeated entries included); bottom-up kinds enabled: %s' % (on or 'none')))
    return obs
