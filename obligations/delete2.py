"""C02, composite deletion, tier B on constructive shapes, every victim x every deletion mode enumerated (one CBMC run per
instance): delete_vertex / delete_edge / delete_face / delete_cell remove exactly the upward closure of the victim
(brute-force scans of the definitions before the call). Deferred mode: exactly the closure becomes flagged, counters
count each newly deleted entity once, no definition, flag of another entity or property value changes. Immediate modes
(index shift / swap-with-last): the resulting mesh is the logical mesh 'before minus closure' in unique-id form (every
survivor keeps its definition and property values, nothing else is there, nothing is left pending). WF afterwards."""
from run import Ob
from obligations.query import SHAPES, DEFS, ROOTS_BUILD, TK
SIZES = {'twotets': (5, 9, 7, 2)}      # prism (6, 9, 5, 1) and open (7, 6, 2, 0) work the same way; left out for run time (about 200 s per instance)
KIND = {'vertex': (0, 'VH', 'TopologyKernel__delete_vertex'), 'edge': (1, 'EH', 'TopologyKernel__delete_edge'), 'face': (2, 'FH', 'TopologyKernel__delete_face'), 'cell': (3, 'CH', 'TopologyKernel__delete_cell')}
H = '''
static _Bool cl_e(const TK *o, int kind, int h, int e) { return kind == 1 ? e == h : (kind == 0 && (EFROM(o, e) == h || ETO(o, e) == h)); }
static _Bool cl_f(const TK *o, int kind, int h, int f) { if (kind == 2) return f == h; if (kind == 3) return 0; _Bool r = 0; for (unsigned long k = 0; k < LFV; k++) if (k < FVAL(o, f) && cl_e(o, kind, h, FHE(o, f, k) >> 1)) r = 1; return r; }
static _Bool cl_c(const TK *o, int kind, int h, int c) { if (kind == 3) return c == h; _Bool r = 0; for (unsigned long k = 0; k < LCV; k++) if (k < CVAL(o, c) && cl_f(o, kind, h, CHF(o, c, k) >> 1)) r = 1; return r; }
void harness(void) {
  TK m; { static const int W0[] = {SHAPE_W}; int aa[4]; unwitness(W0, &m, aa); }
  const int mode = ENUM_MODE, h = ENUM_H, kind = %(kid)d;
  m.deferred_deletion_ = mode == 0; m.fast_deletion_ = mode == 2;
  for (unsigned long i = 0; i < LV; i++) if (i < m.ghost_v.size) m.ghost_v.data[i] = 100 + (int)i;
  for (unsigned long i = 0; i < LE; i++) if (i < m.ghost_e.size) { m.ghost_e.data[i] = 200 + (int)i; m.ghost_he.data[2 * i] = 300 + 2 * (int)i; m.ghost_he.data[2 * i + 1] = 301 + 2 * (int)i; }
  for (unsigned long i = 0; i < LF; i++) if (i < m.ghost_f.size) { m.ghost_f.data[i] = 400 + (int)i; m.ghost_hf.data[2 * i] = 500 + 2 * (int)i; m.ghost_hf.data[2 * i + 1] = 501 + 2 * (int)i; }
  for (unsigned long i = 0; i < LC; i++) if (i < m.ghost_c.size) m.ghost_c.data[i] = 600 + (int)i;
  TK o = TopologyKernel__copy(&m);
  COVER(1, "reachable"); COVER_END;
  { struct %(H)s hh; hh.idx_ = h; %(F)s(&m, hh); }
  __CPROVER_assert(ovm_exc == 0 && wf(&m), "C02.%(n)s.no_exception_and_wf_preserved");
  __CPROVER_assert(same_modes(&o, &m), "C02.%(n)s.modes_unchanged");
  /* the expected logical mesh: the state before with the closure flagged */
  TK x = TopologyKernel__copy(&o); unsigned long dv = 0, de = 0, df = 0, dc = 0;
  for (unsigned long v = 0; v < LV; v++) if (v < o.n_vertices_ && kind == 0 && (int)v == h && !VDEL(&o, v)) { x.vertex_deleted_.data[v] = 1; dv++; }
  for (unsigned long e = 0; e < LE; e++) if (e < o.edges_.size && cl_e(&o, kind, h, (int)e) && !EDEL(&o, e)) { x.edge_deleted_.data[e] = 1; de++; }
  for (unsigned long f = 0; f < LF; f++) if (f < o.faces_.size && cl_f(&o, kind, h, (int)f) && !FDEL(&o, f)) { x.face_deleted_.data[f] = 1; df++; }
  for (unsigned long c = 0; c < LC; c++) if (c < o.cells_.size && cl_c(&o, kind, h, (int)c) && !CDEL(&o, c)) { x.cell_deleted_.data[c] = 1; dc++; }
  if (mode == 0) {
    __CPROVER_assert(map_bools(&x.vertex_deleted_, &m.vertex_deleted_, RHO_NONE, -1, LV, 0) && map_bools(&x.edge_deleted_, &m.edge_deleted_, RHO_NONE, -1, LE, 0) && map_bools(&x.face_deleted_, &m.face_deleted_, RHO_NONE, -1, LF, 0) && map_bools(&x.cell_deleted_, &m.cell_deleted_, RHO_NONE, -1, LC, 0), "C02.%(n)s.deferred: exactly_the_upward_closure_of_the_victim_becomes_flagged_deleted");
    __CPROVER_assert(m.n_deleted_vertices_ == o.n_deleted_vertices_ + dv && m.n_deleted_edges_ == o.n_deleted_edges_ + de && m.n_deleted_faces_ == o.n_deleted_faces_ + df && m.n_deleted_cells_ == o.n_deleted_cells_ + dc, "C02.%(n)s.deferred: each_newly_deleted_entity_is_counted_once (logical counts)");
    __CPROVER_assert(m.n_vertices_ == o.n_vertices_ && map_edges(&o, &m, RHO_NONE, RHO_NONE, 0, -1, 0) && map_faces(&o, &m, RHO_NONE, RHO_NONE, 0, -1, 0) && map_cells(&o, &m, RHO_NONE, RHO_NONE, 0, -1, 0), "C02.%(n)s.deferred: no_definition_changes_and_no_index_moves");
    __CPROVER_assert(map_ints(&o.ghost_v, &m.ghost_v, RHO_NONE, 0, -1, LV, 0) && map_ints(&o.ghost_e, &m.ghost_e, RHO_NONE, 0, -1, LE, 0) && map_ints(&o.ghost_he, &m.ghost_he, RHO_NONE, 0, -1, 2 * LE, 0) && map_ints(&o.ghost_f, &m.ghost_f, RHO_NONE, 0, -1, LF, 0) && map_ints(&o.ghost_hf, &m.ghost_hf, RHO_NONE, 0, -1, 2 * LF, 0) && map_ints(&o.ghost_c, &m.ghost_c, RHO_NONE, 0, -1, LC, 0), "C02.%(n)s.deferred: property_values_stay_where_they_are (C03)");
  } else {
    __CPROVER_assert(gc_logical_mesh_preserved(&x, &m), "C02.%(n)s.immediate: the_result_is_the_mesh_before_minus_the_upward_closure (every survivor keeps its definition and property values in unique-id form, nothing else is there)");
    __CPROVER_assert(gc_nothing_pending(&m), "C02.%(n)s.immediate: nothing_is_left_pending");
  }
}
'''
def obligations():
    obs = []
    for sh, (nv, ne, nf, nc) in SIZES.items():
        for kind, (kid, Hn, F) in KIND.items():
            N = (nv, ne, nf, nc)[kid]
            if N == 0: continue
            n = 'delete_%s.%s' % (kind, sh)
            d = dict(DEFS)
            obs.append(Ob(id='C02.' + n, props=['C02', 'C03', 'C01'], quick_for=[], tu='kernel', tier='B', roots=[TK + '::delete_' + kind] + ROOTS_BUILD,
                          harness=H % dict(kid=kid, H=Hn, F=F, n=n), includes=['wf.h', 'view.h', 'add_spec.h', 'query_spec.h', 'gc_spec.h', 'shapes.h'], copies=[TK], defines=d,
                          unwind=40, adaptive_unwind=True, unwind_start=8, covers=1, timeout=1500, inits={'tk_init': TK}, prebuild_shape=SHAPES[sh],
                          enum=[('ENUM_MODE', [0, 1, 2]), ('ENUM_H', range(N))],
                          bounds=dict(shape=sh, victims='every %s of the shape' % kind, modes='deferred, immediate (shift), immediate (fast)', instances=3 * N),
                          note='composite delete_%s on the constructive shape "%s": every victim x {deferred, shift, fast}, %d enumerated instances, one CBMC run each' % (kind, sh, 3 * N)))
    return obs
