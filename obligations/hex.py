"""C16 (hexahedral kernel, partial), tier U: the orientation algebra over ALL 256x256 input pairs, and the layout
accessors on one cell with six arbitrary (symbolic) halfface handles."""
from run import Ob
HK = 'OpenVolumeMesh::HexahedralMeshTopologyKernel'
P = 'HexahedralMeshTopologyKernel__'

ALGEBRA = '''
void harness(void) {
  unsigned char a = nondet_uchar(), b = nondet_uchar();
  unsigned char ab = %(P)sorthogonal_orientation(a, b);
  _Bool valid_pair = a < 6 && b < 6 && (a / 2) != (b / 2);
  __CPROVER_assert((ab == 6) == !valid_pair, "C16.orthogonal_orientation.invalid_exactly_for_non_orthogonal_or_out_of_range_arguments");
  __CPROVER_assert(!valid_pair || (ab < 6 && ab / 2 != a / 2 && ab / 2 != b / 2), "C16.orthogonal_orientation.result_is_the_third_axis");
  __CPROVER_assert(!valid_pair || %(P)sorthogonal_orientation(b, a) == %(P)sopposite_orientation(ab), "C16.orthogonal_orientation.antisymmetric");
  __CPROVER_assert(!valid_pair || %(P)sorthogonal_orientation(ab, a) == b, "C16.orthogonal_orientation.cyclic_law (fixed handedness)");
  __CPROVER_assert(!valid_pair || %(P)sorthogonal_orientation(%(P)sopposite_orientation(a), b) == %(P)sopposite_orientation(ab), "C16.orthogonal_orientation.flipping_one_argument_flips_the_result");
  __CPROVER_assert(%(P)sorthogonal_orientation(0, 2) == 4, "C16.orthogonal_orientation.xfront_yfront_gives_zfront");
  unsigned char oa = %(P)sopposite_orientation(a);
  __CPROVER_assert(a >= 6 || (oa < 6 && oa != a && oa / 2 == a / 2 && %(P)sopposite_orientation(oa) == a), "C16.opposite_orientation.involution_on_the_same_axis");
}
''' % dict(P=P)

ACCESS = '''
void harness(void) {
  struct HexahedralMeshTopologyKernel m;
  m.cells_.data = (struct OpenVolumeMeshCell *)malloc(sizeof(struct OpenVolumeMeshCell)); m.cells_.size = 1; m.cells_.cap = 1;
  struct vec_HFH *l = &m.cells_.data[0].halffaces_;
  l->data = (struct HFH *)malloc(sizeof(struct HFH) * 6); l->size = 6; l->cap = 6;        /* six arbitrary halfface handles */
  for (int i = 0; i < 6; i++) __CPROVER_assume(l->data[i].idx_ >= 0 && l->data[i].idx_ < 64);   /* the accessors only compare handles for equality */
  struct CH c; c.idx_ = 0;
  unsigned char o = nondet_uchar(); __CPROVER_assume(o < 6);
  int k = nondet_int(); __CPROVER_assume(0 <= k && k < 6);
  _Bool distinct = 1; for (int i = 0; i < 6; i++) for (int j = 0; j < 6; j++) if (i < j && l->data[i].idx_ == l->data[j].idx_) distinct = 0;
  __CPROVER_assert(%(P)sxfront_halfface(&m, c).idx_ == l->data[0].idx_ && %(P)sxback_halfface(&m, c).idx_ == l->data[1].idx_ &&
                   %(P)syfront_halfface(&m, c).idx_ == l->data[2].idx_ && %(P)syback_halfface(&m, c).idx_ == l->data[3].idx_ &&
                   %(P)szfront_halfface(&m, c).idx_ == l->data[4].idx_ && %(P)szback_halfface(&m, c).idx_ == l->data[5].idx_, "C16.accessors.follow_the_xf_xb_yf_yb_zf_zb_layout");
  __CPROVER_assert(%(P)sget_oriented_halfface(&m, o, c).idx_ == l->data[o].idx_, "C16.get_oriented_halfface.is_the_list_position");
  __CPROVER_assert(!distinct || %(P)sorientation(&m, l->data[k], c) == k, "C16.orientation.inverts_the_accessors");
  struct HFH opp = %(P)sopposite_halfface_handle_in_cell(&m, l->data[k], c);
  __CPROVER_assert(!distinct || opp.idx_ == l->data[k ^ 1].idx_, "C16.opposite_halfface_handle_in_cell.is_the_partner_position");
  __CPROVER_assert(!distinct || %(P)sopposite_halfface_handle_in_cell(&m, opp, c).idx_ == l->data[k].idx_, "C16.opposite_halfface_handle_in_cell.involutive");
  struct HFH foreign; foreign.idx_ = nondet_int(); __CPROVER_assume(foreign.idx_ >= 0 && foreign.idx_ < 64); _Bool isin = 0; for (int i = 0; i < 6; i++) if (l->data[i].idx_ == foreign.idx_) isin = 1;
  __CPROVER_assert(isin || %(P)sorientation(&m, foreign, c) == 6, "C16.orientation.invalid_for_a_halfface_not_in_the_cell");
}
''' % dict(P=P)

def obligations():
    return [
        Ob(id='C16.orientation_algebra', props=['C16'], tu='tethex', cfg='hex', tier='U', roots=[HK + '::orthogonal_orientation', HK + '::opposite_orientation'], harness=ALGEBRA,
           note='orthogonal_orientation / opposite_orientation over all 65 536 argument pairs (loop-free, complete)'),
        Ob(id='C16.layout_accessors', props=['C16', 'C20'], tu='tethex', cfg='hex', tier='U', unwind=8, adaptive_unwind=False,
           roots=[HK + '::' + f for f in ('xfront_halfface', 'xback_halfface', 'yfront_halfface', 'yback_halfface', 'zfront_halfface', 'zback_halfface', 'get_oriented_halfface', 'orientation', 'opposite_halfface_handle_in_cell')],
           harness=ACCESS, note='layout accessors on one cell with six arbitrary halfface handles drawn from [0,64) (the accessors only compare handles for equality, so every equality pattern is covered): positions, orientation() as inverse, opposite-in-cell as position xor 1'),
    ]
