"""C16 (hexahedral kernel, partial), tier U: the orientation algebra over ALL 256x256 input pairs, and the layout
accessors on one cell with six arbitrary (symbolic) halfface handles."""
from run import Ob
HK = 'OpenVolumeMesh::HexahedralMeshTopologyKernel'
P = 'HexahedralMeshTopologyKernel__'

ALGEBRA = '''
void harness(void) {
  unsigned char a = nondet_uchar(), b = nondet_uchar();
  unsigned char ab = %(P)sorthogonal_orientation(a, b);
  _Bool valid_pair = a < 6 && b < 6 && (a / 2) != (b / 2);
  __CPROVER_assert((ab == 6) == !valid_pair, "C16.orthogonal_orientation.invalid_exactly_for_non_orthogonal_or_out_of_range_arguments");
  __CPROVER_assert(!valid_pair || (ab < 6 && ab / 2 != a / 2 && ab / 2 != b / 2), "C16.orthogonal_orientation.result_is_the_third_axis");
  __CPROVER_assert(!valid_pair || %(P)sorthogonal_orientation(b, a) == %(P)sopposite_orientation(ab), "C16.orthogonal_orientation.antisymmetric");
  __CPROVER_assert(!valid_pair || %(P)sorthogonal_orientation(ab, a) == b, "C16.orthogonal_orientation.cyclic_law (fixed handedness)");
  __CPROVER_assert(!valid_pair || %(P)sorthogonal_orientation(%(P)sopposite_orientation(a), b) == %(P)sopposite_orientation(ab), "C16.orthogonal_orientation.flipping_one_argument_flips_the_result");
  __CPROVER_assert(%(P)sorthogonal_orientation(0, 2) == 4, "C16.orthogonal_orientation.xfront_yfront_gives_zfront");
  unsigned char oa = %(P)sopposite_orientation(a);
  __CPROVER_assert(a >= 6 || (oa < 6 && oa != a && oa / 2 == a / 2 && %(P)sopposite_orientation(oa) == a), "C16.opposite_orientation.involution_on_the_same_axis");
}
''' % dict(P=P)

ACCESS = '''
void harness(void) {
  struct HexahedralMeshTopologyKernel m;
  m.cells_.data = (struct OpenVolumeMeshCell *)malloc(sizeof(struct OpenVolumeMeshCell)); m.cells_.size = 1; m.cells_.cap = 1;
  struct vec_HFH *l = &m.cells_.data[0].halffaces_;
  l->data = (struct HFH *)malloc(sizeof(struct HFH) * 6); l->size = 6; l->cap = 6;        /* six arbitrary halfface handles */
  for (int i = 0; i < 6; i++) __CPROVER_assume(l->data[i].idx_ >= 0 && l->data[i].idx_ < 64);   /* the accessors only compare handles for equality */
  struct CH c; c.idx_ = 0;
  unsigned char o = nondet_uchar(); __CPROVER_assume(o < 6);
  int k = nondet_int(); __CPROVER_assume(0 <= k && k < 6);
  _Bool distinct = 1; for (int i = 0; i < 6; i++) for (int j = 0; j < 6; j++) if (i < j && l->data[i].idx_ == l->data[j].idx_) distinct = 0;
  __CPROVER_assert(%(P)sxfront_halfface(&m, c).idx_ == l->data[0].idx_ && %(P)sxback_halfface(&m, c).idx_ == l->data[1].idx_ &&
                   %(P)syfront_halfface(&m, c).idx_ == l->data[2].idx_ && %(P)syback_halfface(&m, c).idx_ == l->data[3].idx_ &&
                   %(P)szfront_halfface(&m, c).idx_ == l->data[4].idx_ && %(P)szback_halfface(&m, c).idx_ == l->data[5].idx_, "C16.accessors.follow_the_xf_xb_yf_yb_zf_zb_layout");
  __CPROVER_assert(%(P)sget_oriented_halfface(&m, o, c).idx_ == l->data[o].idx_, "C16.get_oriented_halfface.is_the_list_position");
  __CPROVER_assert(!distinct || %(P)sorientation(&m, l->data[k], c) == k, "C16.orientation.inverts_the_accessors");
  struct HFH opp = %(P)sopposite_halfface_handle_in_cell(&m, l->data[k], c);
  __CPROVER_assert(!distinct || opp.idx_ == l->data[k ^ 1].idx_, "C16.opposite_halfface_handle_in_cell.is_the_partner_position");
  __CPROVER_assert(!distinct || %(P)sopposite_halfface_handle_in_cell(&m, opp, c).idx_ == l->data[k].idx_, "C16.opposite_halfface_handle_in_cell.involutive");
  struct HFH foreign; foreign.idx_ = nondet_int(); __CPROVER_assume(foreign.idx_ >= 0 && foreign.idx_ < 64); _Bool isin = 0; for (int i = 0; i < 6; i++) if (l->data[i].idx_ == foreign.idx_) isin = 1;
  __CPROVER_assert(isin || %(P)sorientation(&m, foreign, c) == 6, "C16.orientation.invalid_for_a_halfface_not_in_the_cell");
}
''' % dict(P=P)

def obligations():
    return [
        Ob(id='C16.orientation_algebra', props=['C16'], tu='tethex', cfg='hex', tier='U', roots=[HK + '::orthogonal_orientation', HK + '::opposite_orientation'], harness=ALGEBRA,
           note='orthogonal_orientation / opposite_orientation over all 65 536 argument pairs (loop-free, complete)'),
        Ob(id='C16.layout_accessors', props=['C16', 'C20'], tu='tethex', cfg='hex', tier='U', unwind=8, adaptive_unwind=False,
           roots=[HK + '::' + f for f in ('xfront_halfface', 'xback_halfface', 'yfront_halfface', 'yback_halfface', 'zfront_halfface', 'zback_halfface', 'get_oriented_halfface', 'orientation', 'opposite_halfface_handle_in_cell')],
           harness=ACCESS, note='layout accessors on one cell with six arbitrary halfface handles drawn from [0,64) (the accessors only compare handles for equality, so every equality pattern is covered): positions, orientation() as inverse, opposite-in-cell as position xor 1'),
    ]

# ---------------------------------------------------------------------------------------------------------------
# C16 part 2, tier B (concrete construction executed symbolically): two hexahedra built through the REAL
# add_cell(8 vertices) on an empty hexahedral kernel; layout convention, hex_vertices pattern, sheet circulators
# (direction / reference cell / reference halfface symbolic); and add_cell(6 halffaces, topology check) for EVERY
# permutation of a valid cell's halfface list.
from obligations.query import DEFS as QDEFS
HEXDEFS = dict(QDEFS); HEXDEFS.update(LV=12, PV=12, LE=20, PE=20, LF=11, PF=11, LC=2, PC=2, LFV=4, PFV=4, LCV=6, PCV=6, LOUT=5, POUT=5, LINC=3, PINC=3, VSTD_CAP_DEFAULT=44)
HM = '(struct HexahedralMeshTopologyKernel *)'
HEXHELP = '''
typedef struct HexahedralMeshTopologyKernel HMESH;
static _Bool hx_share_vertex(const TK *m, int hfa, int hfb) { _Bool r = 0; for (unsigned long i = 0; i < 4; i++) for (unsigned long j = 0; j < 4; j++) if (i < FVAL(m, hfa >> 1) && j < FVAL(m, hfb >> 1) && spec_hf_vertex(m, hfa, i) == spec_hf_vertex(m, hfb, j)) r = 1; return r; }
/* the halfface of cell c, other than hf, that contains the opposite of halfedge he; -1 if none */
static int hx_adj(const TK *m, int c, int hf, int he) { int r = -1; for (unsigned long k = 0; k < 6; k++) if (k < CVAL(m, c) && CHF(m, c, k) != hf && spec_he_in_hf(m, CHF(m, c, k), he ^ 1)) r = CHF(m, c, k); return r; }
/* the x-front, x-back, y-front, y-back, z-front, z-back convention of the property statement */
static _Bool hx_convention(const TK *m, int c) {
  if (CVAL(m, c) != 6) return 0;
  for (int k = 0; k < 6; k++) if (FVAL(m, CHF(m, c, k) >> 1) != 4) return 0;
  for (int k = 0; k < 3; k++) if (hx_share_vertex(m, CHF(m, c, 2 * k), CHF(m, c, 2 * k + 1))) return 0;
  int T[4] = {CHF(m, c, 2), CHF(m, c, 4), CHF(m, c, 3), CHF(m, c, 5)}; int seq[4];
  for (int i = 0; i < 4; i++) seq[i] = hx_adj(m, c, CHF(m, c, 0), spec_hf_he(m, CHF(m, c, 0), i));
  _Bool any = 0;
  for (int r = 0; r < 4; r++) { _Bool ok = 1; for (int j = 0; j < 4; j++) if (seq[(r + j) % 4] != T[j]) ok = 0; if (ok) any = 1; }
  return any;
}
static int hx_adj_l(const TK *m, const int *H, int hf, int he) { int r = -1; for (int k = 0; k < 6; k++) if (H[k] != hf && spec_he_in_hf(m, H[k], he ^ 1)) r = H[k]; return r; }
static _Bool hx_convention_list(const TK *m, const int *H) {
  for (int k = 0; k < 6; k++) if (FVAL(m, H[k] >> 1) != 4) return 0;
  for (int k = 0; k < 3; k++) if (hx_share_vertex(m, H[2 * k], H[2 * k + 1])) return 0;
  int T[4] = {H[2], H[4], H[3], H[5]}; int seq[4];
  for (int i = 0; i < 4; i++) seq[i] = hx_adj_l(m, H, H[0], spec_hf_he(m, H[0], i));
  _Bool any = 0;
  for (int r = 0; r < 4; r++) { _Bool ok = 1; for (int j = 0; j < 4; j++) if (seq[(r + j) % 4] != T[j]) ok = 0; if (ok) any = 1; }
  return any;
}
static struct vec_VH hx_list8(const int *v) { struct vec_VH l; vec_VH_init(&l); for (int i = 0; i < 8; i++) { struct VH h; h.idx_ = v[i]; vec_VH_push_back(&l, h); } return l; }
static void hx_two_cubes(HMESH *m) {
  tk_init(m);
  for (int i = 0; i < 12; i++) TopologyKernel__add_vertex((TK *)m);
  static const int A[8] = {0, 1, 2, 3, 4, 5, 6, 7}, B[8] = {7, 6, 5, 4, 8, 11, 10, 9};
  struct vec_VH la = hx_list8(A), lb = hx_list8(B);
  struct CH c0 = HexahedralMeshTopologyKernel__add_cell__std_vector_VH__r_bool(m, &la, 1);
  struct CH c1 = HexahedralMeshTopologyKernel__add_cell__std_vector_VH__r_bool(m, &lb, 1);
  if (!(c0.idx_ == 0 && c1.idx_ == 1)) m->cells_.size = 0;      /* reported by the harness as a malformed scenario */
}
'''
TWO_CUBES_PARTS = {'convention': 'void harness(void) {\n  TK m0; { static const int W0[] = {SHAPE_W}; int aa[4]; unwitness(W0, &m0, aa); }      /* the state built natively by hx_two_cubes (real add_cell(8 vertices), extracted text) */\n  HMESH hm = *(HMESH *)&m0; TK *m = (TK *)&hm;\n  int c = nondet_int(); __CPROVER_assume(c == 0 || c == 1);\n  struct CH hc; hc.idx_ = c;\n  __CPROVER_assert(wf(m) && m->n_vertices_ == 12 && m->edges_.size == 20 && m->faces_.size == 11 && m->cells_.size == 2, "C16.two_cubes.well_formed_with_12_vertices_20_edges_11_faces_2_cells (the shared face is found, not duplicated)");\n  __CPROVER_assert(hx_convention(m, 0) && hx_convention(m, 1), "C16.two_cubes.cells_created_from_eight_vertices_follow_the_xf_xb_yf_yb_zf_zb_convention");\n  int k0 = nondet_int(); __CPROVER_assume(0 <= k0 && k0 < 6);\n  int ref = CHF(m, c, k0); struct HFH href; href.idx_ = ref;\n  __CPROVER_assert(HexahedralMeshTopologyKernel__orientation(&hm, href, hc) == k0 && HexahedralMeshTopologyKernel__opposite_halfface_handle_in_cell(&hm, href, hc).idx_ == CHF(m, c, k0 ^ 1), "C16.orientation.agrees_with_the_layout_on_real_cells");\n}\n', 'hex_vertices': 'void harness(void) {\n  TK m0; { static const int W0[] = {SHAPE_W}; int aa[4]; unwitness(W0, &m0, aa); }      /* the state built natively by hx_two_cubes (real add_cell(8 vertices), extracted text) */\n  HMESH hm = *(HMESH *)&m0; TK *m = (TK *)&hm;\n  int c = nondet_int(); __CPROVER_assume(c == 0 || c == 1);\n  struct CH hc; hc.idx_ = c;\n  int seq[20]; int cnt = 0; int laps = nondet_int(); __CPROVER_assume(laps == 1 || laps == 2);\n  { @TYPE(hv_iter)@ it = HexahedralMeshTopologyKernel__hv_iter(&hm, hc, laps);\n    for (int s = 0; s < 20; s++) if (it.valid_) { seq[cnt] = it.cur_handle_.idx_; cnt++; @INC(hv_iter)@(&it); } }\n  __CPROVER_assert(cnt == 8 * laps, "C16.hex_vertices.eight_vertices_per_lap");\n  _Bool distinct = 1; for (int i = 0; i < 8; i++) for (int j = 0; j < 8; j++) if (i < j && seq[i] == seq[j]) distinct = 0;\n  __CPROVER_assert(distinct, "C16.hex_vertices.eight_distinct_vertices");\n  int h0 = CHF(m, c, 0), h1 = CHF(m, c, 1);\n  __CPROVER_assert(seq[0] == HEFROM(m, spec_hf_he(m, h0, 0)) && seq[1] == spec_hf_vertex(m, h0, 3) && seq[2] == spec_hf_vertex(m, h0, 2) && seq[3] == spec_hf_vertex(m, h0, 1), "C16.hex_vertices.first_four_are_the_first_halfface_against_its_cyclic_order_from_the_source_of_its_first_halfedge");\n  _Bool back = 1; for (int i = 4; i < 8; i++) if (!spec_vertex_in_hf(m, h1, seq[i])) back = 0;\n  __CPROVER_assert(back, "C16.hex_vertices.last_four_are_the_opposite_halffaces_vertices");\n  __CPROVER_assert(spec_live_he(m, seq[0], seq[4]) && spec_live_he(m, seq[1], seq[7]) && spec_live_he(m, seq[2], seq[6]) && spec_live_he(m, seq[3], seq[5]), "C16.hex_vertices.pattern_positions_0_4__1_7__2_6__3_5_are_joined_by_edges");\n  __CPROVER_assert(cnt < 16 || (seq[8] == seq[0] && seq[15] == seq[7]), "C16.hex_vertices.second_lap_repeats");\n}\n', 'cell_sheet': 'void harness(void) {\n  TK m0; { static const int W0[] = {SHAPE_W}; int aa[4]; unwitness(W0, &m0, aa); }      /* the state built natively by hx_two_cubes (real add_cell(8 vertices), extracted text) */\n  HMESH hm = *(HMESH *)&m0; TK *m = (TK *)&hm;\n  int c = nondet_int(); __CPROVER_assume(c == 0 || c == 1);\n  struct CH hc; hc.idx_ = c;\n  unsigned char dir = nondet_uchar(); __CPROVER_assume(dir < 6);\n  int expect[4]; int ne = 0;\n  for (int k = 0; k < 6; k++) if (k / 2 != dir / 2) { int d = ICELL(m, CHF(m, c, k) ^ 1); if (d >= 0) { _Bool dup = 0; for (int i = 0; i < 4; i++) if (i < ne && expect[i] == d) dup = 1; if (!dup) { expect[ne] = d; ne++; } } }\n  int got[8]; int ng = 0;\n  { @TYPE(csc_iter)@ it = HexahedralMeshTopologyKernel__csc_iter(&hm, hc, dir, 1);\n    __CPROVER_assert(it.valid_ == (ne > 0), "C16.cell_sheet_cells.valid_exactly_when_there_is_a_neighbour_across_an_orthogonal_halfface");\n    for (int s = 0; s < 8; s++) if (it.valid_) { got[ng] = it.cur_handle_.idx_; ng++; @INC(csc_iter)@(&it); } }\n  _Bool sameset = ng == ne; for (int i = 0; i < 4; i++) if (i < ne) { _Bool f = 0; for (int j = 0; j < 8; j++) if (j < ng && got[j] == expect[i]) f = 1; if (!f) sameset = 0; }\n  __CPROVER_assert(sameset, "C16.cell_sheet_cells.exactly_the_neighbours_across_the_four_halffaces_orthogonal_to_the_direction");\n}\n', 'halfface_sheet': 'void harness(void) {\n  TK m0; { static const int W0[] = {SHAPE_W}; int aa[4]; unwitness(W0, &m0, aa); }      /* the state built natively by hx_two_cubes (real add_cell(8 vertices), extracted text) */\n  HMESH hm = *(HMESH *)&m0; TK *m = (TK *)&hm;\n  int c = nondet_int(); __CPROVER_assume(c == 0 || c == 1);\n  struct CH hc; hc.idx_ = c;\n  int k0 = nondet_int(); __CPROVER_assume(0 <= k0 && k0 < 6);\n  int ref = CHF(m, c, k0); struct HFH href; href.idx_ = ref;\n  int exh[8]; int nx = 0;\n  for (int d = 0; d < 2; d++) { _Bool isn = 0; for (int k = 0; k < 6; k++) if (k / 2 != k0 / 2 && ICELL(m, CHF(m, c, k) ^ 1) == d) isn = 1;\n    if (isn) for (int k = 0; k < 6; k++) { int g = CHF(m, d, k); _Bool common = 0; for (int i = 0; i < 4; i++) if (spec_he_in_hf(m, g, spec_hf_he(m, ref ^ 1, i))) common = 1; if (common) { exh[nx] = g; nx++; } } }\n  int goth[8]; int nh = 0;\n  { @TYPE(hfshf_iter)@ it = HexahedralMeshTopologyKernel__hfshf_iter(&hm, href, 1);\n    for (int s = 0; s < 8; s++) if (it.valid_) { goth[nh] = it.cur_handle_.idx_; nh++; @INC(hfshf_iter)@(&it); } }\n  _Bool same2 = nh == nx; for (int i = 0; i < 8; i++) if (i < nx && i < nh && goth[i] != exh[i]) same2 = 0;\n  __CPROVER_assert(same2, "C16.halfface_sheet_halffaces.the_matching_halffaces_of_the_sheet_neighbours");\n}\n'}
PERMS = '''
void harness(void) {
  TK m0; { static const int W0[] = {SHAPE_W}; int aa[4]; unwitness(W0, &m0, aa); }      /* eight vertices and the six quads of a cube, built natively through add_face(vertices) */
  HMESH hm = *(HMESH *)&m0; TK *m = (TK *)&hm;
  int H[6]; for (int f = 0; f < 6; f++) H[f] = 2 * f;
  static const int P5[120][5] = {%(P5)s};
  int first = ENUM_FIRST;
  int q = ENUM_Q;
  int L[6]; L[0] = H[first]; for (int i = 0; i < 5; i++) { int j = P5[q][i]; L[i + 1] = H[j < first ? j : j + 1]; }
  struct vec_HFH l; vec_HFH_init(&l); for (int i = 0; i < 6; i++) { struct HFH h; h.idx_ = L[i]; vec_HFH_push_back(&l, h); }
  _Bool conv_in = HexahedralMeshTopologyKernel__check_halfface_ordering(&hm, &l);
  COVER(1, "reachable"); COVER_END;
  __CPROVER_assert(conv_in == hx_convention_list(m, L), "C16.check_halfface_ordering.true_exactly_for_lists_in_the_xf_xb_yf_yb_zf_zb_convention");
  base_calls = 0;
  struct CH r = HexahedralMeshTopologyKernel__add_cell__std_vector_HFH_bool(&hm, l, 1);
  __CPROVER_assert(base_calls == 1 && base_n == 6 && base_flag == 1 && r.idx_ == 77, "C16.add_cell_permuted.every_reordering_of_a_valid_hexahedron_is_handed_to_the_general_add_cell_once_with_the_topology_check_on");
  _Bool perm = 1; for (int i = 0; i < 6; i++) { int cntl = 0; for (int k = 0; k < 6; k++) if (base_list[k] == L[i]) cntl++; if (cntl != 1) perm = 0; }
  __CPROVER_assert(perm, "C16.add_cell_permuted.the_list_handed_on_is_a_reordering_of_the_given_halffaces");
  __CPROVER_assert(hx_convention_list(m, base_list), "C16.add_cell_permuted.the_list_handed_on_is_in_convention_order");
  _Bool kept = 1; for (int i = 0; i < 6; i++) if (base_list[i] != L[i]) kept = 0;
  __CPROVER_assert(!conv_in || kept, "C16.add_cell_permuted.a_list_already_in_convention_order_is_handed_on_unchanged");
  __CPROVER_assert(base_list[0] == L[0], "C16.add_cell_permuted.the_first_halfface_stays_first");
}
'''
PERM_STUBS = {'OpenVolumeMesh::TopologyKernel::add_cell': '{ base_calls++; base_n = (int)_halffaces.size; for (int i = 0; i < 6; i++) base_list[i] = (unsigned long)i < _halffaces.size ? _halffaces.data[i].idx_ : -7; base_flag = _topologyCheck; struct CH r; r.idx_ = 77; return r; }'}
PERM_PRE = 'int base_calls; int base_list[6]; int base_n; _Bool base_flag;\n'
static_decoy = '''
static void hx_cube_with_decoy(HMESH *m) {
  tk_init(m);
  for (int i = 0; i < 9; i++) TopologyKernel__add_vertex((TK *)m);
  shape_face((TK *)m, 4, 3, 2, 1, 8);      /* a "doublet" partner of the x-front face (3,2,1,0): same two consecutive edges, foreign fourth vertex */
  static const int A[8] = {0, 1, 2, 3, 4, 5, 6, 7};
  struct vec_VH la = hx_list8(A);
  struct CH c0 = HexahedralMeshTopologyKernel__add_cell__std_vector_VH__r_bool(m, &la, 1);
  if (c0.idx_ != 0) m->cells_.size = 0;
}
'''
DECOY_H = '''
void harness(void) {
  TK m0; { static const int W0[] = {SHAPE_W}; int aa[4]; unwitness(W0, &m0, aa); }
  HMESH hm = *(HMESH *)&m0; TK *m = (TK *)&hm;
  __CPROVER_assert(m->cells_.size == 1 && wf(m), "C16.decoy.the_cell_is_created_next_to_a_quad_that_shares_three_vertices_with_one_of_its_faces");
  __CPROVER_assert(m->cells_.size != 1 || hx_convention(m, 0), "C16.decoy.the_cell_follows_the_convention (opposite halffaces share no vertex: the foreign quad is not taken for a face of the cell)");
  _Bool own = 1; for (int k = 0; k < 6; k++) for (int i = 0; i < 4; i++) if (m->cells_.size == 1 && spec_hf_vertex(m, CHF(m, 0, k), i) == 8) own = 0;
  __CPROVER_assert(own, "C16.decoy.every_face_of_the_cell_lies_on_its_own_eight_vertices");
  __CPROVER_assert(m->faces_.size == 7, "C16.decoy.six_new_faces_were_created_besides_the_decoy");
}
'''
static_cube = '''
static void hx_cube_faces(HMESH *m) {
  tk_init(m);
  for (int i = 0; i < 8; i++) TopologyKernel__add_vertex((TK *)m);
  static const int F[6][4] = {{3,2,1,0},{7,6,5,4},{1,2,6,7},{4,5,3,0},{1,7,4,0},{2,3,5,6}};
  for (int f = 0; f < 6; f++) shape_face((TK *)m, 4, F[f][0], F[f][1], F[f][2], F[f][3]);
}
'''
_base_hex = obligations
def obligations():
    import itertools
    obs = _base_hex()
    from obligations.query import ROOTS_BUILD, TK
    roots = [HK + '::' + f for f in ('hv_iter', 'csc_iter', 'hfshf_iter', 'orientation', 'opposite_halfface_handle_in_cell', 'check_halfface_ordering')] + \
            [(HK + '::add_cell', 'const std::vector<VertexHandle> &'), (HK + '::add_cell', 'std::vector<HalfFaceHandle>, bool')] + ROOTS_BUILD
    inc = ['wf.h', 'view.h', 'add_spec.h', 'query_spec.h', 'circ_spec.h', 'shapes.h']
    for part, h in TWO_CUBES_PARTS.items():
        en = None
        if part == 'hex_vertices':
            h = h.replace('int c = nondet_int(); __CPROVER_assume(c == 0 || c == 1);', 'int c = ENUM_C;').replace('int laps = nondet_int(); __CPROVER_assume(laps == 1 || laps == 2);', 'int laps = ENUM_LAPS;'); en = [('ENUM_C', [0, 1]), ('ENUM_LAPS', [1, 2])]
        if part == 'halfface_sheet':
            h = h.replace('int c = nondet_int(); __CPROVER_assume(c == 0 || c == 1);', 'int c = ENUM_C;').replace('int k0 = nondet_int(); __CPROVER_assume(0 <= k0 && k0 < 6);', 'int k0 = ENUM_K;'); en = [('ENUM_C', [0, 1]), ('ENUM_K', range(6))]
        obs.append(Ob(id='C16.two_cubes.' + part, props=['C16', 'C05'], quick_for=['C16'], tu='tethex', cfg='hex', tier='B', roots=roots, harness=h, includes=inc, copies=[TK, HK], defines=dict(HEXDEFS),
                      inits={'tk_init': HK}, preamble_after=HEXHELP, circ_class='HexahedralMeshTopologyKernel', unwind=50, unwind_start=12, timeout=3000, prebuild_shape=100, prebuild_call='hx_two_cubes((HMESH *)&m);', enum=en,
                      bounds=dict(scenario='two hexahedra sharing a face, built natively by the extracted add_cell(8 vertices)', symbolic='reference cell, laps, sheet direction, reference halfface'),
                      note='two hexahedra built through the real add_cell(8 vertices): %s against a hand-written specification' % part))
    obs.append(Ob(id='C16.add_cell_vertices.decoy_quad', props=['C16', 'C10'], quick_for=['C16'], tu='tethex', cfg='hex', tier='B', roots=roots, harness=DECOY_H, includes=inc, copies=[TK, HK], defines=dict(HEXDEFS, LV=9, PV=9, LE=14, PE=14, LF=7, PF=7, LC=1, PC=1),
                  inits={'tk_init': HK}, preamble_after=HEXHELP + static_decoy, unwind=40, unwind_start=12, timeout=3000, prebuild_shape=102, prebuild_call='hx_cube_with_decoy((HMESH *)&m);',
                  bounds=dict(scenario='add_cell(8 vertices) on a mesh that already holds a quad over three of the x-front vertices plus a foreign vertex'),
                  note='add_cell(8 vertices) must find its faces by all four vertices: with a decoy quad present the cell still has its own six faces in convention order'))
    P5 = ', '.join('{%d,%d,%d,%d,%d}' % p for p in itertools.permutations(range(5)))
    for first in range(6):
        roots_perm = [r for r in roots if r != TK + '::add_cell']
        obs.append(Ob(id='C16.add_cell_permuted.first%d' % first, props=['C16'], quick_for=[], tu='tethex', cfg='hex', tier='B', roots=roots_perm, harness=PERMS % dict(P5=P5), includes=inc, copies=[TK, HK],
                      defines=dict(HEXDEFS, LV=8, PV=8, LE=12, PE=12, LF=6, PF=6, LC=1, PC=1, LOUT=3, POUT=3, LINC=2, PINC=2, VSTD_CAP_DEFAULT=26), inits={'tk_init': HK}, preamble_after=HEXHELP + static_cube, unwind=30, adaptive_unwind=True, unwind_start=5, timeout=900, covers=1, stubs=PERM_STUBS, preamble=PERM_PRE,
                      prebuild_shape=101, prebuild_call='hx_cube_faces((HMESH *)&m);', enum=[('ENUM_FIRST', [first]), ('ENUM_Q', range(120))],
                      bounds=dict(scenario='the six inner halffaces of one cube', orders='halfface %d first, the other five in all 120 orders (one CBMC run per order)' % first),
                      note='hexahedral add_cell(6 halffaces, topology check) with the general add_cell as a recording stub, and check_halfface_ordering, for the 120 orders of a valid hexahedron\'s halffaces that start with halfface %d' % first))
    return obs
