"""C03, storage level (tier B: vectors of up to CAP elements, everything else symbolic): the real
PropertyStorageT<int>, <bool> (vector<bool> specialisation of swap) and <double> members that the mesh's renumbering
notifications end in - resize, push_back, swap, copy, delete_element, clear, reserve, operator[], def - against the
array semantics the ghost property model of the kernel obligations assumes (spec/wf.h ghost_* operations)."""
from run import Ob
D = 'verif_drv__'
CAP = 5
def harness(pfx, T, ct, vec):
    S = 'struct PropertyStorageT_%s' % T
    eq = (lambda a, b: '(%s == %s || (%s != %s && %s != %s))' % (a, b, a, a, b, b)) if T == 'double' else (lambda a, b: '(%s == %s)' % (a, b))
    nd = {'int': 'nondet_int()', 'bool': 'nondet_bool()', 'double': 'nondet_double()'}[T]
    def A(c, name): return '  __CPROVER_assert(%s, "C03.storage.%s.%s");\n' % (c, T, name)
    h = '''
static %(S)s mk(unsigned long n) { %(S)s s; %(vec)s_init(&s.data_); for (unsigned long k = 0; k < %(CAP)d; k++) if (k < n) %(vec)s_push_back(&s.data_, %(nd)s); s.def_ = %(nd)s; return s; }
static _Bool same_prefix(%(S)s *a, %(S)s *b, unsigned long upto) { _Bool r = 1; for (unsigned long k = 0; k < %(CAP)d + 1; k++) if (k < upto && !%(eqk)s) r = 0; return r; }
void harness(void) {
  unsigned long n = nondet_ulong(); __CPROVER_assume(n <= %(CAP)d);
  %(S)s s = mk(n); %(S)s o = s; o.data_ = %(vec)s_copy(&s.data_);
  unsigned long i = nondet_ulong(), j = nondet_ulong(), m = nondet_ulong(); __CPROVER_assume(m <= %(CAP)d + 1);
  int op = nondet_int();
  if (op == 0) { %(D)s%(p)s_resize(&s, m);
''' % dict(S=S, vec=vec, CAP=CAP, nd=nd, D=D, p=pfx, eqk=eq('a->data_.data[k]', 'b->data_.data[k]'))
    h += A('s.data_.size == m && same_prefix(&o, &s, n < m ? n : m)', 'resize_keeps_the_surviving_prefix')
    h += '    _Bool defs = 1; for (unsigned long k = 0; k < %d + 1; k++) if (k >= n && k < m && !%s) defs = 0;\n' % (CAP, eq('s.data_.data[k]', 'o.def_'))
    h += A('defs && %s' % eq('s.def_', 'o.def_'), 'new_slots_hold_the_default_value') + '  }\n'
    h += '  if (op == 1) { %s%s_push_back(&s);\n' % (D, pfx) + A('s.data_.size == n + 1 && same_prefix(&o, &s, n) && %s' % eq('s.data_.data[n]', 'o.def_'), 'push_back_appends_the_default_value') + '  }\n'
    h += '  if (op == 2) { __CPROVER_assume(i < n && j < n); %s%s_swap(&s, i, j);\n' % (D, pfx)
    h += '    _Bool others = 1; for (unsigned long k = 0; k < %d; k++) if (k < n && k != i && k != j && !%s) others = 0;\n' % (CAP, eq('s.data_.data[k]', 'o.data_.data[k]'))
    h += A('s.data_.size == n && others && %s && %s' % (eq('s.data_.data[i]', 'o.data_.data[j]'), eq('s.data_.data[j]', 'o.data_.data[i]')), 'swap_exchanges_exactly_the_two_slots') + '  }\n'
    h += '  if (op == 3) { __CPROVER_assume(i < n && j < n); %s%s_copy(&s, i, j);\n' % (D, pfx)
    h += '    _Bool others = 1; for (unsigned long k = 0; k < %d; k++) if (k < n && k != j && !%s) others = 0;\n' % (CAP, eq('s.data_.data[k]', 'o.data_.data[k]'))
    h += A('s.data_.size == n && others && %s' % eq('s.data_.data[j]', 'o.data_.data[i]'), 'copy_overwrites_exactly_the_destination_slot_with_the_source_value') + '  }\n'
    h += '  if (op == 4) { __CPROVER_assume(i < n); %s%s_delete_element(&s, i);\n' % (D, pfx)
    h += '    _Bool shifted = 1; for (unsigned long k = 0; k < %d; k++) if (k + 1 < n && !%s) shifted = 0;\n' % (CAP, eq('s.data_.data[k]', '(k < i ? o.data_.data[k] : o.data_.data[k + 1])'))
    h += A('s.data_.size + 1 == n && shifted', 'delete_element_removes_the_slot_and_shifts_the_later_ones_down_by_one') + '  }\n'
    h += '  if (op == 5) { %s%s_clear(&s);\n' % (D, pfx) + A('s.data_.size == 0 && %s' % eq('s.def_', 'o.def_'), 'clear_empties_the_storage_and_keeps_the_default') + '  }\n'
    h += '  if (op == 6) { %s%s_reserve(&s, m);\n' % (D, pfx) + A('s.data_.size == n && same_prefix(&o, &s, n)', 'reserve_changes_no_element') + '  }\n'
    h += '  if (op == 7) { __CPROVER_assume(i < n); %s v = %s; %s%s_set(&s, i, v);\n' % (ct, nd, D, pfx)
    h += '    _Bool others = 1; for (unsigned long k = 0; k < %d; k++) if (k < n && k != i && !%s) others = 0;\n' % (CAP, eq('s.data_.data[k]', 'o.data_.data[k]'))
    h += A('others && %s && %s && %s%s_size(&s) == n && %s' % (eq('s.data_.data[i]', 'v'), eq('%s%s_get(&s, i)' % (D, pfx), 'v'), D, pfx, eq('%s%s_def(&s)' % (D, pfx), 'o.def_')), 'operator[]_reads_and_writes_exactly_one_slot__size_and_def_report_the_state') + '  }\n'
    h += '}\n'
    return h

def obligations():
    obs = []
    Q = 'OpenVolumeMesh::verif_drv::'
    for pfx, T, ct, vec in (('pi', 'int', 'int', 'vec_int'), ('pb', 'bool', '_Bool', 'vec_bool'), ('pd', 'double', 'double', 'vec_double')):
        obs.append(Ob(id='C03.storage.' + T, props=['C03'], quick_for=['C03'], tu='props', cfg='props', tier='B', roots=[Q + pfx + '_' + f for f in ('resize', 'reserve', 'clear', 'push_back', 'swap', 'copy', 'delete_element', 'size', 'get', 'set', 'def')],
                      harness=harness(pfx, T, ct, vec), unwind=CAP + 4, adaptive_unwind=True, unwind_start=CAP + 3, timeout=900, defines=dict(VSTD_CAP_DEFAULT=CAP + 3),
                      bounds=dict(elements=CAP), note='PropertyStorageT<%s>: resize, push_back, swap, copy, delete_element, clear, reserve, operator[] on storages of up to %d elements with arbitrary contents, indices and default value' % (T, CAP)))
    return obs
