"""reorder_incident_halffaces (C09 / C01 / C12), tier B: the REAL function against the contract that its callers
are verified with (obligations/delete.py REORDER_STUB): no effect unless edge AND face incidences are enabled;
otherwise it only permutes the incident-halfface lists of the edge's two halfedges (WF's multiset clause)."""
from run import Ob
from obligations._mesh import MeshHarness, caps as mcaps
TK = 'OpenVolumeMesh::TopologyKernel'
import os
INLINE = os.environ.get('VERIF_INLINE', '0') == '1'   # inline-array vstd mode: CBMC 6.11 gave unreproducible counterexamples with it (DESIGN 2.15); off
def A(cond, name, n): return '  __CPROVER_assert(%s, "C09.%s.%s");' % (cond, n, name)

def obligations():
    obs = []
    for on in ('ef',):      # the contract requires both containers populated; callers are checked against that (delete.py, add.py)
        n = 'reorder.bu_%s' % (on or 'none')
        d = mcaps(v=2, e=2, f=2, c=2, fv=2, cv=2, out=2, inc=2) if on != 'ef' else mcaps(v=1, e=1, f=2, c=2, fv=2, cv=2, out=2, inc=2)
        d.update(CFG_V=0, CFG_E=int('e' in on), CFG_F=int('f' in on), CFG_DEFERRED=1, CFG_FAST=0)
        post = [A('ovm_exc == 0', 'no_exception', n),
                A('wf(&m)', 'wf_preserved (each incident list stays a permutation: multiset clause of WF)', n),
                A('same_modes(&o, &m) && same_counters(&o, &m) && o.n_vertices_ == m.n_vertices_', 'modes_counters_unchanged', n),
                A('map_edges(&o, &m, RHO_NONE, RHO_NONE, 0, -1, 0) && map_faces(&o, &m, RHO_NONE, RHO_NONE, 0, -1, 0) && map_cells(&o, &m, RHO_NONE, RHO_NONE, 0, -1, 0) && map_vcache(&o, &m, RHO_NONE, RHO_NONE, -1, 0) && map_fcache(&o, &m, RHO_NONE, RHO_NONE, -1, 0)', 'definitions_and_other_caches_untouched', n),
                A('map_ecache(&o, &m, RHO_NONE, RHO_NONE, h, 0)', 'lists_of_other_edges_untouched', n)]
        if on != 'ef':
            post.append(A('same_state(&o, &m)', 'no_effect_without_both_incidence_kinds', n))
        mh = MeshHarness(args='  int h = ARG(0);\n  __CPROVER_assume(0 <= h && (unsigned long)h < m.edges_.size);',
                         snap='  witness(&o, h, 0, 0, 0);\n  COVER(1, "precondition satisfiable");\n  COVER(m.e_bottom_up_ ? INCN(&m, 2 * h) >= 2 : 1, "edge with at least two incident halffaces");',
                         call='  { struct EH hh; hh.idx_ = h; TopologyKernel__reorder_incident_halffaces(&m, hh); }',
                         post='\n'.join(post), op='reorder')
        obs.append(Ob(id='C09.' + n, props=['C09', 'C01', 'C12'], tu='kernel', tier='B', roots=[TK + '::reorder_incident_halffaces'],
                      harness=mh, includes=['wf.h', 'view.h'], copies=[TK], defines=d, inline_vec=INLINE, unwind=6, covers=2, timeout=900, quick_for=['C09', 'C01'],
                      bounds=dict(vertices=2, edges=2, faces=2, cells=2, face_valence=2, cell_valence=2, incident_list=2),
                      note='real reorder_incident_halffaces against its caller-side contract; bottom-up kinds enabled: %s' % (on or 'none')))
    # rotational order (C09) on a fan of up to 3 faces and 2 cells around ONE edge
    for nf in ():      # symbolic fans: out of memory at 40 GB (fan2) - not registered; the order clause is decided on shapes below
        n = 'reorder.order.fan%d' % nf
        d = mcaps(v=1, e=1, f=nf, c=2, fv=2, cv=3, out=2, inc=nf)
        d.update(CFG_V=0, CFG_E=1, CFG_F=1, CFG_DEFERRED=1, CFG_FAST=0)
        post = ['  int L0[3] = {0, 0, 0}, L1[3] = {0, 0, 0}; int n0 = (int)INCN(&o, 0); for (int i = 0; i < 3; i++) if (i < n0) { L0[i] = INC(&o, 0, i); L1[i] = INC(&m, 0, i); }',
                A('wf(&m)', 'wf_preserved', n),
                A('n0 > 3 || !spec_some_arrangement_ordered(&o, 0, L0, n0) || spec_ordered3(&m, 0, L1, n0)', 'halffaces_in_rotational_order_whenever_the_fan_admits_one (boundary halfface last, each followed by the opposite of its in-cell neighbour)', n),
                A('n0 > 3 || !spec_ordered3(&m, 0, L1, n0) || g_k < 0 || g_k >= n0 || INC(&m, 1, g_k) == (INC(&m, 0, n0 - 1 - g_k) ^ 1)', 'opposite_halfedge_reports_the_mirrored_reverse_sequence', n)]
        mh = MeshHarness(args='  int h = 0;', pre_assume='  __CPROVER_assume(m.edges_.size == 1 && !EDEL(&m, 0));',
                         snap='  witness(&o, h, 0, 0, 0);\n  COVER(INCN(&m, 0) == %d && m.cells_.size == 2 && !CDEL(&m, 0) && !CDEL(&m, 1), "full fan with two live cells");\n  COVER(INCN(&m, 0) >= 2, "at least two halffaces");' % nf,
                         call='  { struct EH hh; hh.idx_ = 0; TopologyKernel__reorder_incident_halffaces(&m, hh); }', post='\n'.join(post), op='reorder')
        obs.append(Ob(id='C09.' + n, props=['C09'], quick_for=[], mem_gb=40, tu='kernel', tier='B', roots=[TK + '::reorder_incident_halffaces'], harness=mh,
                      includes=['wf.h', 'view.h', 'add_spec.h', 'query_spec.h', 'reorder_spec.h'], copies=[TK], defines=d, unwind=2 * max(nf, 3) + 2, covers=2, timeout=3000,
                      bounds=dict(edges=1, faces=nf, cells=2, face_valence=2, cell_valence=3, incident_list=nf), note='rotational order after reorder_incident_halffaces on any WF state with one edge, up to %d faces around it and two cells' % nf))
    # rotational order on constructive shapes: the mesh is built by the real construction code; for ONE concrete edge with
    # at least three incident faces the incident list of its first halfedge is put into an arbitrary (symbolic) order,
    # the second list is as built or reversed; then the real reorder_incident_halffaces runs. Well-formedness and the
    # frame are not repeated here: they are the contract proved for any state in C09.reorder.bu_ef.
    from obligations.query import DEFS, ROOTS_BUILD
    PERM = ', '.join('{%d,%d,%d,%d}' % p for p in __import__('itertools').permutations(range(4)))
    for sh, shid, extra, edges in (('twotets', 2, {}, (1, 3, 5)), ('ring3', 5, dict(LE=10, PE=10, LF=9, PF=9, LC=3, PC=3, VSTD_CAP_DEFAULT=26), (0,)), ('fan3', 6, dict(LE=12, PE=12, LF=10, PF=10, LC=3, PC=3, LINC=4, PINC=4, LOUT=5, POUT=5, VSTD_CAP_DEFAULT=26), (0,))):
        for eh in edges:
            n = 'reorder.shape.%s.e%d' % (sh, eh)
            d = dict(DEFS); d.update(extra)
            h = '''
static const int PERM4[24][4] = {%(PERM)s};
void harness(void) {
  TK m; { static const int W0[] = {SHAPE_W}; int aa[4]; unwitness(W0, &m, aa); }
  const int h = %(eh)d;
  int cnt = (int)INCN(&m, 2 * h);
  __CPROVER_assume(cnt >= 3 && cnt <= 4);
  COVER(1, "the chosen edge has at least three incident faces");
  COVER_END;
  int q = ENUM_Q;
  _Bool isperm = 1; for (int i = 0; i < 4; i++) if ((i < cnt) != (PERM4[q][i] < cnt)) isperm = 0;
  if (!isperm) return;      /* this instance is not a permutation of the first cnt positions */
  _Bool rev = ENUM_REV;
  int old0[4], old1[4];
  for (int i = 0; i < 4; i++) if (i < cnt) { old0[i] = INC(&m, 2 * h, i); old1[i] = INC(&m, 2 * h + 1, i); }
  for (int i = 0; i < 4; i++) if (i < cnt) { m.incident_hfs_per_he_.data[2 * h].data[i].idx_ = old0[PERM4[q][i]]; if (rev) m.incident_hfs_per_he_.data[2 * h + 1].data[i].idx_ = old1[cnt - 1 - i]; }
  { struct EH hh; hh.idx_ = h; TopologyKernel__reorder_incident_halffaces(&m, hh); }
  int L1[4] = {0, 0, 0, 0}; for (int i = 0; i < 4; i++) if (i < cnt) L1[i] = INC(&m, 2 * h, i);
  __CPROVER_assert((int)INCN(&m, 2 * h) == cnt && (int)INCN(&m, 2 * h + 1) == cnt, "C09.%(n)s.list_lengths_unchanged");
  __CPROVER_assert(spec_ordered3(&m, 2 * h, L1, cnt), "C09.%(n)s.halffaces_in_rotational_order (each followed by the opposite of its in-cell neighbour; a boundary halfface, if any, last)");
  _Bool mirror = 1; for (int i = 0; i < 4; i++) if (i < cnt && INC(&m, 2 * h + 1, i) != (INC(&m, 2 * h, cnt - 1 - i) ^ 1)) mirror = 0;
  __CPROVER_assert(mirror, "C09.%(n)s.opposite_halfedge_reports_the_mirrored_reverse_sequence");
}
''' % dict(PERM=PERM, n=n, eh=eh)
            obs.append(Ob(id='C09.' + n, props=['C09'], quick_for=['C09'] if (sh, eh) in (('twotets', 1), ('fan3', 0)) else [], tu='kernel', tier='B', roots=[TK + '::reorder_incident_halffaces'] + ROOTS_BUILD, harness=h,
                          includes=['wf.h', 'view.h', 'add_spec.h', 'query_spec.h', 'reorder_spec.h', 'shapes.h'], copies=[TK], defines=d, unwind=26, adaptive_unwind=False, covers=1, timeout=600, enum=[('ENUM_Q', range(24)), ('ENUM_REV', range(2))],
                          inits={'tk_init': TK}, prebuild_shape=shid, bounds=dict(shape=sh, edge=eh, initial_order='every permutation of the incident list of the first halfedge (48 enumerated instances, one CBMC run each), the second list as built or reversed'),
                          note='rotational order after the real reorder_incident_halffaces on the constructive shape "%s", edge %d, starting from every order of its incident-halfface list' % (sh, eh)))
    # rotational order after switching the edge incidences off and on again (face incidences stay on): the real
    # enable_edge_bottom_up_incidences recomputes the lists and must leave them in rotational order
    for sh, shid, extra, eh in (('twotets', 2, {}, 1),):      # the open fan of three tets works the same way but needs more than an hour of adaptive unwinding: not registered
        n = 'enable_edge.order.%s' % sh
        d = dict(DEFS); d.update(extra)
        h = '''
void harness(void) {
  TK m; { static const int W0[] = {SHAPE_W}; int aa[4]; unwitness(W0, &m, aa); }
  const int h = %(eh)d;
  int cnt = (int)INCN(&m, 2 * h);
  __CPROVER_assume(cnt >= 3 && cnt <= 4 && m.f_bottom_up_);
  COVER(1, "the chosen edge has at least three incident faces"); COVER_END;
  TopologyKernel__enable_edge_bottom_up_incidences(&m, 0);
  __CPROVER_assert(m.incident_hfs_per_he_.size == 0 && !m.e_bottom_up_, "C12.%(n)s.disabled_means_empty");
  TopologyKernel__enable_edge_bottom_up_incidences(&m, 1);
  __CPROVER_assert(m.e_bottom_up_ && wf(&m), "C12.%(n)s.re_enabled_and_well_formed");
  int L1[4] = {0, 0, 0, 0}; for (int i = 0; i < 4; i++) if (i < cnt) L1[i] = INC(&m, 2 * h, i);
  __CPROVER_assert((int)INCN(&m, 2 * h) == cnt && spec_ordered3(&m, 2 * h, L1, cnt), "C09.%(n)s.halffaces_in_rotational_order_after_re_enabling_the_edge_incidences");
  _Bool mirror = 1; for (int i = 0; i < 4; i++) if (i < cnt && INC(&m, 2 * h + 1, i) != (INC(&m, 2 * h, cnt - 1 - i) ^ 1)) mirror = 0;
  __CPROVER_assert(mirror, "C09.%(n)s.opposite_halfedge_reports_the_mirrored_reverse_sequence");
}
''' % dict(n=n, eh=eh)
        obs.append(Ob(id='C09.' + n, props=['C09', 'C12'], quick_for=['C09'] if sh == 'twotets' else [], tu='kernel', tier='B', roots=[TK + '::reorder_incident_halffaces', TK + '::enable_edge_bottom_up_incidences'] + ROOTS_BUILD, harness=h,
                      includes=['wf.h', 'view.h', 'add_spec.h', 'query_spec.h', 'reorder_spec.h', 'shapes.h'], copies=[TK], defines=d, unwind=44, unwind_start=10, covers=1, timeout=3000,
                      inits={'tk_init': TK}, prebuild_shape=shid, bounds=dict(shape=sh, edge=eh),
                      note='edge incidences switched off and on again on the constructive shape "%s": the recomputed incident-halfface lists of edge %d are in rotational order' % (sh, eh)))
    return obs
