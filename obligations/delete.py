"""C02/C01/C03/C12: delete_{vertex,edge,face,cell}_core on symbolic WF states, witness form (sigma named):
deferred = identity + flag, immediate = shift-down, fast = swap-with-last. Every bottom-up subset the
function reads; ghost property arrays follow the same renaming (C03)."""
from run import Ob
from obligations._mesh import MeshHarness, caps as mcaps
TK = 'OpenVolumeMesh::TopologyKernel'
import os
INLINE = os.environ.get('VERIF_INLINE', '0') == '1'   # inline-array vstd mode: CBMC 6.11 gave unreproducible counterexamples with it (DESIGN 2.15); off

def A(cond, name, n): return '  __CPROVER_assert(%s, "C02.%s.%s");' % (cond, n, name)

SAME_V = "m.n_vertices_ == o.n_vertices_ && map_bools(&o.vertex_deleted_, &m.vertex_deleted_, RHO_NONE, -1, LV, 0) && map_ints(&o.ghost_v, &m.ghost_v, RHO_NONE, 0, -1, LV, 0)"
SAME_E = "map_edges(&o, &m, RHO_NONE, RHO_NONE, 0, -1, 0) && map_bools(&o.edge_deleted_, &m.edge_deleted_, RHO_NONE, -1, LE, 0) && map_ints(&o.ghost_e, &m.ghost_e, RHO_NONE, 0, -1, LE, 0) && map_ints(&o.ghost_he, &m.ghost_he, RHO_NONE, 0, -1, 2 * LE, 0)"
SAME_F = "map_faces(&o, &m, RHO_NONE, RHO_NONE, 0, -1, 0) && map_bools(&o.face_deleted_, &m.face_deleted_, RHO_NONE, -1, LF, 0) && map_ints(&o.ghost_f, &m.ghost_f, RHO_NONE, 0, -1, LF, 0) && map_ints(&o.ghost_hf, &m.ghost_hf, RHO_NONE, 0, -1, 2 * LF, 0)"
SAME_C = "map_cells(&o, &m, RHO_NONE, RHO_NONE, 0, -1, 0) && map_bools(&o.cell_deleted_, &m.cell_deleted_, RHO_NONE, -1, LC, 0) && map_ints(&o.ghost_c, &m.ghost_c, RHO_NONE, 0, -1, LC, 0)"
SAME_VC = "map_vcache(&o, &m, RHO_NONE, RHO_NONE, -1, 0)"
SAME_EC = "map_ecache(&o, &m, RHO_NONE, RHO_NONE, -1, 0)"
SAME_FC = "map_fcache(&o, &m, RHO_NONE, RHO_NONE, -1, 0)"

KINDS = {
 'cell': dict(H='CH', N='m.cells_.size', F='TopologyKernel__delete_cell_core', It='CellIter', reads='ef', used='0', DEL='CDEL',
              cnt='n_deleted_cells_', flags='cell_deleted_', L='LC', cover='CVAL(&m, h) > 0'),
 'face': dict(H='FH', N='m.faces_.size', F='TopologyKernel__delete_face_core', It='FaceIter', reads='ef', used='spec_face_used(&m, h)', DEL='FDEL',
              cnt='n_deleted_faces_', flags='face_deleted_', L='LF', cover='FVAL(&m, h) > 0'),
 'edge': dict(H='EH', N='m.edges_.size', F='TopologyKernel__delete_edge_core', It='EdgeIter', reads='ve', used='spec_edge_used(&m, h)', DEL='EDEL',
              cnt='n_deleted_edges_', flags='edge_deleted_', L='LE', cover='m.edges_.size > 1'),
 'vertex': dict(H='VH', N='m.n_vertices_', F='TopologyKernel__delete_vertex_core', It='VertexIter', reads='v', used='spec_vertex_used(&m, h)', DEL='VDEL',
              cnt='n_deleted_vertices_', flags='vertex_deleted_', L='LV', cover='m.n_vertices_ > 1 && m.edges_.size > 0'),
}

def post_for(kind, mode, n):
    K = KINDS[kind]
    out = [A('ovm_exc == 0', 'no_exception', n),
           A('wf(&m)', 'wf_preserved (caches are exactly the inverse of the surviving definitions: C01)', n),
           A('same_modes(&o, &m)', 'modes_unchanged', n)]
    FP_E = SAME_E.replace('map_edges(&o, &m, RHO_NONE, RHO_NONE, 0, -1, 0) && ', '')     # flags and props only: definitions are relabelled
    FP_F = SAME_F.replace('map_faces(&o, &m, RHO_NONE, RHO_NONE, 0, -1, 0) && ', '')
    FP_C = SAME_C.replace('map_cells(&o, &m, RHO_NONE, RHO_NONE, 0, -1, 0) && ', '')
    if mode == 'deferred':
        others = dict(cell=[SAME_V, SAME_E, SAME_F, SAME_VC], face=[SAME_V, SAME_E, SAME_C, SAME_VC],
                      edge=[SAME_V, SAME_F, SAME_C, SAME_FC], vertex=[SAME_E, SAME_F, SAME_C, SAME_EC, SAME_FC])[kind]
    else:
        others = dict(cell=[SAME_V, SAME_E, SAME_F, SAME_VC], face=[SAME_V, SAME_E, FP_C, SAME_VC],
                      edge=[SAME_V, FP_F, SAME_C, SAME_FC], vertex=[FP_E, SAME_F, SAME_C, SAME_EC, SAME_FC])[kind]
    cnts = ['n_deleted_vertices_', 'n_deleted_edges_', 'n_deleted_faces_', 'n_deleted_cells_']
    if mode == 'deferred':
        out.append(A('ret > h', 'returned_iterator_is_past_the_victim', n))
        out.append(A('m.%s == o.%s + 1 && %s' % (K['cnt'], K['cnt'], ' && '.join('m.%s == o.%s' % (c, c) for c in cnts if c != K['cnt'])), 'deleted_counter_incremented_only', n))
        out.append(A('%s(&m, h)' % K['DEL'], 'victim_flagged_deleted', n))
        out.append(A('map_bools(&o.%s, &m.%s, RHO_NONE, h, %s, 0)' % (K['flags'], K['flags'], K['L']), 'no_other_flag_changes', n))
        # definitions and properties of every entity unchanged (the victim's own definition stays until collection)
        alls = dict(cell="map_cells(&o, &m, RHO_NONE, RHO_NONE, 0, -1, 0) && map_ints(&o.ghost_c, &m.ghost_c, RHO_NONE, 0, -1, LC, 0)",
                    face="map_faces(&o, &m, RHO_NONE, RHO_NONE, 0, -1, 0) && map_ints(&o.ghost_f, &m.ghost_f, RHO_NONE, 0, -1, LF, 0) && map_ints(&o.ghost_hf, &m.ghost_hf, RHO_NONE, 0, -1, 2 * LF, 0)",
                    edge="map_edges(&o, &m, RHO_NONE, RHO_NONE, 0, -1, 0) && map_ints(&o.ghost_e, &m.ghost_e, RHO_NONE, 0, -1, LE, 0) && map_ints(&o.ghost_he, &m.ghost_he, RHO_NONE, 0, -1, 2 * LE, 0)",
                    vertex="m.n_vertices_ == o.n_vertices_ && map_ints(&o.ghost_v, &m.ghost_v, RHO_NONE, 0, -1, LV, 0)")[kind]
        out.append(A(alls, 'definitions_and_props_of_this_kind_unchanged (C03)', n))
        if kind == 'cell':
            out.append(A('map_ecache(&o, &m, RHO_NONE, RHO_NONE, -1, 0) || 1', 'placeholder', n))
        if kind == 'vertex': out.append(A(SAME_VC, 'vertex_cache_unchanged', n))
        if kind == 'edge': out.append(A(SAME_EC, 'edge_cache_unchanged', n))
        if kind == 'face': out.append(A(SAME_FC, 'face_cache_unchanged', n))
    else:
        rho = 'RHO_SHIFT' if mode == 'shift' else 'RHO_SWAPLAST'
        out.insert(0, '  struct rho t; t.mode = %s; t.a = h; t.b = (int)%s - 1;' % (rho, K['N'].replace('m.', 'o.')))
        out.append(A('ret == h', 'returned_iterator_at_the_victims_old_index', n) if mode == 'shift' else A('ret == t.b', 'returned_iterator_at_the_removed_last_slot', n))
        out.append(A(' && '.join('m.%s == o.%s' % (c, c) for c in cnts), 'deleted_counters_unchanged', n))
        if kind == 'cell':
            out.append(A('map_cells(&o, &m, t, RHO_NONE, 0, h, 1)', 'survivor_cells_keep_their_definitions_under_sigma', n))
            out.append(A('map_bools(&o.cell_deleted_, &m.cell_deleted_, t, h, LC, 1) && map_ints(&o.ghost_c, &m.ghost_c, t, 0, h, LC, 1)', 'flags_and_props_follow_sigma (C03)', n))
        if kind == 'face':
            out.append(A('map_faces(&o, &m, t, RHO_NONE, 0, h, 1)', 'survivor_faces_keep_their_definitions_under_sigma', n))
            out.append(A('map_bools(&o.face_deleted_, &m.face_deleted_, t, h, LF, 1) && map_ints(&o.ghost_f, &m.ghost_f, t, 0, h, LF, 1) && map_ints(&o.ghost_hf, &m.ghost_hf, t, 1, h, 2 * LF, 2)', 'flags_and_props_follow_sigma_halffaces_side_by_side (C03)', n))
            out.append(A('map_cells(&o, &m, RHO_NONE, t, 0, -1, 0)', 'cell_definitions_relabelled', n))
            out.append(A('map_fcache(&o, &m, t, RHO_NONE, h, 2)', 'incident_cell_moves_with_its_halfface', n))
        if kind == 'edge':
            out.append(A('map_edges(&o, &m, t, RHO_NONE, 0, h, 1)', 'survivor_edges_keep_their_definitions_under_sigma', n))
            out.append(A('map_bools(&o.edge_deleted_, &m.edge_deleted_, t, h, LE, 1) && map_ints(&o.ghost_e, &m.ghost_e, t, 0, h, LE, 1) && map_ints(&o.ghost_he, &m.ghost_he, t, 1, h, 2 * LE, 2)', 'flags_and_props_follow_sigma_halfedges_side_by_side (C03)', n))
            out.append(A('map_faces(&o, &m, RHO_NONE, t, 0, -1, 0)', 'face_definitions_relabelled', n))
            out.append(A('map_ecache(&o, &m, t, RHO_NONE, h, 2)', 'incident_halffaces_move_with_their_halfedge', n))
        if kind == 'vertex':
            out.append(A('m.n_vertices_ + 1 == o.n_vertices_', 'one_vertex_fewer', n))
            out.append(A('map_bools(&o.vertex_deleted_, &m.vertex_deleted_, t, h, LV, 1) && map_ints(&o.ghost_v, &m.ghost_v, t, 0, h, LV, 1)', 'flags_and_props_follow_sigma (C03)', n))
            out.append(A('map_edges(&o, &m, RHO_NONE, t, 0, -1, 0)', 'edge_endpoints_relabelled', n))
            out.append(A('map_vcache(&o, &m, t, RHO_NONE, h, 1)', 'outgoing_lists_move_with_their_vertex', n))
    out.append(A(' && '.join(others), 'entities_of_other_kinds_untouched (definitions, flags, props)', n))
    return '\n'.join(l for l in out if 'placeholder' not in l)

REORDER_STUB = {TK + '::reorder_incident_halffaces': '''{
  /* contract (verified for the real function in obligations/reorder.py):
     requires both containers it indexes to be populated (callers must test both incidence kinds);
     ensures the two incident-halfface lists of the edge are permuted and nothing else changes */
  __CPROVER_assert(self->incident_hfs_per_he_.size == 2 * self->edges_.size && self->incident_cell_per_hf_.size == 2 * self->faces_.size,
                   "reorder_incident_halffaces.requires: halfedge->halfface AND halfface->cell incidences are populated (it indexes both containers)");
  __CPROVER_assert(_eh.idx_ >= 0 && (unsigned long)_eh.idx_ < self->edges_.size, "reorder_incident_halffaces.requires: edge handle in range");
  reorder_contract_effect(self, _eh.idx_);
}'''}

# per-function caps: kinds the function never reads are kept minimal (cost); every kind it reads or relabels gets 2
CAPS = {'vertex': dict(v=2, e=2, f=1, c=0, fv=2, cv=1, out=2, inc=2),
        'edge':   dict(v=2, e=2, f=2, c=0, fv=2, cv=1, out=2, inc=2),
        'face':   dict(v=1, e=2, f=2, c=2, fv=2, cv=2, out=2, inc=2),
        'cell':   dict(v=1, e=2, f=2, c=2, fv=2, cv=2, out=2, inc=2)}

MODES = {'deferred': (1, 1), 'shift': (0, 0), 'fast': (0, 1)}

def obligations():
    obs = []
    for kind, K in KINDS.items():
        reads = K['reads']
        for mode, (dfr, fast) in MODES.items():
            for mask in range(1 << len(reads)):
                on = ''.join(ch for i, ch in enumerate(reads) if mask >> i & 1)
                n = 'delete_%s_core.%s.bu_%s' % (kind, mode, on or 'none')
                d = mcaps(**CAPS[kind])
                d.update(CFG_V=int('v' in on), CFG_E=int('e' in on), CFG_F=int('f' in on), CFG_DEFERRED=dfr, CFG_FAST=fast)
                pre = '  __CPROVER_assume(!%s(&m, h) && !(%s));' % (K['DEL'], K['used'])
                if mode == 'fast': pre += '\n  __CPROVER_assume(!%s(&m, %s - 1));' % (K['DEL'], K['N'])
                mh = MeshHarness(
                    args='  int h = ARG(0);\n  __CPROVER_assume(0 <= h && (unsigned long)h < %s);' % K['N'],
                    pre_assume=pre,
                    snap='  witness(&o, h, 0, 0, 0);\n  COVER(1, "precondition satisfiable");\n  COVER(%s, "non-trivial victim");' % K['cover'],
                    call='  { struct %s hh; hh.idx_ = h; struct %s it = %s(&m, hh); ret = it.cur_handle_.idx_; }' % (K['H'], K['It'], K['F']),
                    post=post_for(kind, mode, n), op='delete_%s_core' % kind)
                quick = on in ('', reads)     # quick tier: all-off and all-on subsets; thorough: every subset
                obs.append(Ob(id='C02.' + n, props=['C02', 'C01', 'C03', 'C12'], tu='kernel', tier='B',
                              roots=[TK + '::delete_%s_core' % kind], harness=mh, includes=['wf.h', 'view.h'],
                              copies=[TK], defines=d, inline_vec=INLINE, unwind=6, covers=2, timeout=900, quick_for=(['C02'] if quick else ['C12']), stubs=REORDER_STUB,
                              bounds=dict(zip(('vertices', 'edges', 'faces', 'cells', 'face_valence', 'cell_valence', 'outgoing_list', 'incident_list'), (CAPS[kind][k] for k in ('v', 'e', 'f', 'c', 'fv', 'cv', 'out', 'inc')))),
                              note='delete_%s_core, %s mode, bottom-up kinds enabled: %s; precondition: victim live and not referenced by a live higher entity' % (kind, mode, on or 'none')))
    return obs
