"""C04: collect_garbage / enable_deferred_deletion(false) preserve the logical mesh (uid form), tier B.
Also C02/C03/C12 clauses: the four delete cores are inlined here in the order and modes garbage collection uses them."""
from run import Ob
from obligations._mesh import MeshHarness, caps as mcaps
from obligations.delete import REORDER_STUB
TK = 'OpenVolumeMesh::TopologyKernel'
def A(cond, name, n): return '  __CPROVER_assert(%s, "C04.%s.%s");' % (cond, n, name)
def UW(d): return 2 * max(d['LV'], d['LE'], d['LF'], d['LC'], d['LFV'], d['LCV'], d['LOUT'], d['LINC']) + 2

def obligations():
    obs = []
    for fn, call, op in (('collect_garbage', 'TopologyKernel__collect_garbage(&m);', 'collect_garbage'),
                         ('leave_deferred_mode', 'TopologyKernel__enable_deferred_deletion(&m, 0);', 'enable_deferred_deletion')):
        for fast in (0, 1):
            for on in ('', 'f', 'vef'):
                n = '%s.%s.bu_%s' % (fn, 'fast' if fast else 'shift', on or 'none')
                d = mcaps(v=2, e=2, f=2, c=2, fv=2, cv=2, out=2, inc=2) if not on else mcaps(v=1, e=1, f=2, c=2, fv=2, cv=2, out=2, inc=2)
                d.update(CFG_V=int('v' in on), CFG_E=int('e' in on), CFG_F=int('f' in on), CFG_DEFERRED=1, CFG_FAST=fast)
                post = [A('ovm_exc == 0', 'no_exception', n), A('wf(&m)', 'wf_preserved', n),
                        A('gc_nothing_pending(&m)', 'no_pending_deletions_afterwards', n),
                        A('gc_logical_mesh_preserved(&o, &m)', 'entities_definitions_and_property_values_are_exactly_those_of_the_logical_mesh', n),
                        A('m.deferred_deletion_ == %d && m.fast_deletion_ == o.fast_deletion_ && m.v_bottom_up_ == o.v_bottom_up_ && m.e_bottom_up_ == o.e_bottom_up_ && m.f_bottom_up_ == o.f_bottom_up_' % (1 if fn == 'collect_garbage' else 0), 'modes_as_documented', n)]
                mh = MeshHarness(args='  int tgt = 0; (void)tgt;', pre_assume='  __CPROVER_assume(gc_uids_distinct(&m));',
                                 snap='  witness(&o, 0, 0, 0, 0);\n  COVER(m.n_deleted_edges_ + m.n_deleted_faces_ + m.n_deleted_cells_ + m.n_deleted_vertices_ >= 1, "something to collect");\n  COVER(m.n_deleted_faces_ >= 1 && m.cells_.size == 2, "deleted face among two cells");',
                                 call='  ' + call, post='\n'.join(post), op=op)
                obs.append(Ob(id='C04.' + n, props=['C04', 'C02', 'C03', 'C12'], quick_for=['C04'] if (fn == 'collect_garbage' and on in ('', 'f') and fast) else [], tu='kernel', tier='B',
                              roots=[TK + '::collect_garbage', TK + '::enable_deferred_deletion'], harness=mh, stubs=REORDER_STUB,
                              includes=['wf.h', 'view.h', 'gc_spec.h'], copies=[TK], defines=d, unwind=UW(d), covers=2, timeout=3600, mem_gb=(30 if (on == 'vef' and not fast) else None),      # shift x all incidences: 12 GB is not enough (measured: passes with 30 GB in 34 min)
                              bounds=dict(vertices=2 if not on else 1, edges=2 if not on else 1, faces=2, cells=2, face_valence=2, cell_valence=2, incident_list=2),
                              note='%s with %s deletion, bottom-up kinds: %s; any pattern of pending deletions on any WF state within the bounds' % (fn, 'fast' if fast else 'index-shifting', on or 'none')))
    return obs
