"""C07 / C06: property value codecs of the OVMB format (PropertyCodecs.cc, PropertyCodecsT_impl.hh), tier B (vectors of
up to 6 elements; buffer size, contents, range and values symbolic).
 decode_n on ANY buffer: no read outside the chunk buffer; it either fails (parse_error) or fills exactly the elements
   [idx_begin, idx_end) from the bytes in order and leaves every other element alone.
 encode_n then decode_n: the elements of the range come back bit-exactly, also for ranges that do not start at 0 (a
   property split over several chunks) - the bool codec packs eight values per byte."""
from run import Ob
C = 'OpenVolumeMesh::IO::Codecs::'
CAP = 6
KINDS = {
  'i32':  dict(q=C + 'SimplePropCodec<OpenVolumeMesh::IO::Codecs::Primitive<int>>', cn='IO_Codecs_SimplePropCodec_IO_Codecs_Primitive_int_', vec='vec_int', E='int', size=4, nd='nondet_int()', get='v.data[%s]', eq=lambda a, b: '%s == %s' % (a, b),
               dec=lambda p: '(int)((unsigned)%s[0] | ((unsigned)%s[1] << 8) | ((unsigned)%s[2] << 16) | ((unsigned)%s[3] << 24))' % (p, p, p, p)),
  'vh':   dict(q=C + 'SimplePropCodec<OpenVolumeMesh::IO::Codecs::OVMHandle<OpenVolumeMesh::VH>>', cn='IO_Codecs_SimplePropCodec_IO_Codecs_OVMHandle_VH_', vec='vec_VH', E='struct VH', size=4, nd='nd_vh()', get='v.data[%s].idx_', eq=lambda a, b: '%s.idx_ == %s.idx_' % (a, b),
               dec=lambda p: '(int)((unsigned)%s[0] | ((unsigned)%s[1] << 8) | ((unsigned)%s[2] << 16) | ((unsigned)%s[3] << 24))' % (p, p, p, p)),
  'bool': dict(q=C + 'BoolPropCodec', cn='IO_Codecs_BoolPropCodec_', vec='vec_bool', E='_Bool', size=None, nd='nondet_bool()', get='v.data[%s]', eq=lambda a, b: '%s == %s' % (a, b), dec=None),
}
PRE = 'static struct VH nd_vh(void) { struct VH h; h.idx_ = nondet_int(); return h; }\n'

def decode_harness(k, K):
    V = 'struct ' + K['vec']
    if K['size']:
        need = '(e - b) * %d' % K['size']
        val = lambda i: K['dec']('(buf + (%s - b) * %d)' % (i, K['size']))
    else:
        need = '(e - b + 7) / 8'
        val = lambda i: '((buf[(%s - b) / 8] >> ((%s - b) %% 8)) & 1)' % (i, i)
    return (PRE if k == 'vh' else '') + '''
void harness(void) {
  unsigned long n = nondet_ulong(); __CPROVER_assume(n <= 32);
  unsigned char *buf = (unsigned char *)malloc(n ? n : 1);
  struct IO_detail_Decoder d; d.data_.data = buf; d.data_.size = n; d.data_.cap = n; d.cur_ = buf; d.end_ = buf + n;
  unsigned long sz = nondet_ulong(); __CPROVER_assume(sz <= %(CAP)d);
  %(V)s v; %(vec)s_init(&v); for (unsigned long i = 0; i < %(CAP)d; i++) if (i < sz) %(vec)s_push_back(&v, %(nd)s);
  %(V)s o = %(vec)s_copy(&v);
  unsigned long b = nondet_ulong(), e = nondet_ulong(); __CPROVER_assume(b < e && e <= sz);      /* what deserialize() and read_prop_chunk() establish */
  %(cn)s_decode_n(&d, &v, b, e);
  /* (pointer checks on every read of the buffer are CBMC properties of the Decoder primitives) */
  __CPROVER_assert(ovm_exc != 0 || n >= %(need)s, "C07.prop_codec.%(k)s.decode_n_succeeds_only_when_the_chunk_holds_the_whole_range");
  if (ovm_exc == 0) {
    _Bool ok = 1, untouched = 1;
    for (unsigned long i = 0; i < %(CAP)d; i++) if (i < sz) { if (i >= b && i < e) { if (!(%(GET)s == %(VAL)s)) ok = 0; } else if (!(%(EQ)s)) untouched = 0; }
    __CPROVER_assert(ok, "C06.prop_codec.%(k)s.decode_n_fills_the_range_from_the_bytes_in_order");
    __CPROVER_assert(untouched && v.size == sz, "C07.prop_codec.%(k)s.decode_n_touches_no_element_outside_the_range");
    __CPROVER_assert(d.cur_ == buf + %(need)s, "C18.prop_codec.%(k)s.decode_n_consumes_exactly_the_bytes_of_the_range");
  }
}
''' % dict(CAP=CAP, V=V, vec=K['vec'], nd=K['nd'], cn=K['cn'], need=need, k=k, GET=K['get'] % 'i', VAL=val('i'), EQ=K['eq']('v.data[i]', 'o.data[i]'))

def roundtrip_harness(k, K):
    V = 'struct ' + K['vec']
    return (PRE if k == 'vh' else '') + '''
void harness(void) {
  unsigned long sz = nondet_ulong(); __CPROVER_assume(sz <= %(CAP)d);
  %(V)s src; %(vec)s_init(&src); %(V)s dst; %(vec)s_init(&dst);
  for (unsigned long i = 0; i < %(CAP)d; i++) if (i < sz) { %(vec)s_push_back(&src, %(nd)s); %(vec)s_push_back(&dst, %(nd)s); }
  %(V)s o = %(vec)s_copy(&dst);
  unsigned long b = nondet_ulong(), e = nondet_ulong(); __CPROVER_assume(b < e && e <= sz);
  struct IO_detail_WriteBuffer wb; vec_uchar_init(&wb.data_); wb.pos_ = 0;
  struct IO_detail_Encoder enc; enc.buffer_ = &wb;
  %(cn)s_encode_n(&enc, &src, b, e);
  __CPROVER_assert(ovm_exc == 0, "C06.prop_codec.%(k)s.encode_n_does_not_fail");
  unsigned long n = wb.pos_;
  struct IO_detail_Decoder d; d.data_.data = wb.data_.data; d.data_.size = n; d.data_.cap = n; d.cur_ = d.data_.data; d.end_ = d.data_.data + n;
  %(cn)s_decode_n(&d, &dst, b, e);
  __CPROVER_assert(ovm_exc == 0 && d.cur_ == d.end_, "C06.prop_codec.%(k)s.decode_n_accepts_and_consumes_exactly_what_encode_n_wrote");
  _Bool same = 1, untouched = 1;
  for (unsigned long i = 0; i < %(CAP)d; i++) if (i < sz) { if (i >= b && i < e) { if (!(%(EQS)s)) same = 0; } else if (!(%(EQO)s)) untouched = 0; }
  __CPROVER_assert(same, "C06.prop_codec.%(k)s.the_values_of_the_range_come_back_exactly (also for a range that does not start at 0)");
  __CPROVER_assert(untouched, "C06.prop_codec.%(k)s.elements_outside_the_range_keep_their_values");
}
''' % dict(CAP=CAP, V=V, vec=K['vec'], nd=K['nd'], cn=K['cn'], k=k, EQS=K['eq']('dst.data[i]', 'src.data[i]'), EQO=K['eq']('dst.data[i]', 'o.data[i]'))

def obligations():
    obs = []
    for k, K in KINDS.items():
        obs.append(Ob(id='C07.prop_codec.%s.decode_n' % k, props=['C07', 'C06', 'C18'], quick_for=['C07'], tu='ovmb', cfg='ovmb', tier='B', roots=[K['q'] + '::decode_n'], harness=decode_harness(k, K),
                      unwind=CAP + 4, unwind_start=CAP + 3, timeout=900, defines=dict(VSTD_CAP_DEFAULT=CAP + 2), bounds=dict(elements=CAP, chunk_bytes=32),
                      note='decode_n of the %s property codec on any chunk buffer of up to 32 bytes, any vector of up to %d elements and any range' % (k, CAP)))
        obs.append(Ob(id='C06.prop_codec.%s.roundtrip' % k, props=['C06'], quick_for=['C06'], tu='ovmb', cfg='ovmb', tier='B', roots=[K['q'] + '::decode_n', K['q'] + '::encode_n'], harness=roundtrip_harness(k, K),
                      unwind=40, unwind_start=CAP + 3, timeout=900, defines=dict(VSTD_CAP_DEFAULT=34), bounds=dict(elements=CAP),
                      note='encode_n then decode_n of the %s property codec for any vector of up to %d elements and any range' % (k, CAP)))
    return obs
