"""C05 (entity iterators, tier U): ctor / ++ / -- of the six entity iterators under loop contracts.
The empty write frame on the mesh (assigns only the iterator's own fields) also serves C20."""
from run import Ob

# name, entity-count expression (unsigned long), deleted-array, half?, handle
ITERS = [
    ('VertexIter',   'self->mesh_->n_vertices_', 'vertex_deleted_', False, 'VH',  'self->mesh_->n_vertices_'),
    ('EdgeIter',     'self->mesh_->edges_.size', 'edge_deleted_',   False, 'EH',  'self->mesh_->edges_.size'),
    ('HalfEdgeIter', 'self->mesh_->edges_.size', 'edge_deleted_',   True,  'HEH', 'self->mesh_->edges_.size'),
    ('FaceIter',     'self->mesh_->faces_.size', 'face_deleted_',   False, 'FH',  'self->mesh_->faces_.size'),
    ('HalfFaceIter', 'self->mesh_->faces_.size', 'face_deleted_',   True,  'HFH', 'self->mesh_->faces_.size'),
    ('CellIter',     'self->mesh_->cells_.size', 'cell_deleted_',   False, 'CH',  'self->mesh_->cells_.size'),
]

def common_requires(cnt, delarr, half, m='self->mesh_'):
    lim = '1073741823UL' if half else '2147483647UL'
    return '''  requires __CPROVER_is_fresh(self, sizeof(*self))
  requires __CPROVER_is_fresh(%(m)s, sizeof(*%(m)s))
  requires %(cnt)s <= %(lim)s
  requires %(m)s->%(d)s.size == %(cnt)s
  requires __CPROVER_is_fresh(%(m)s->%(d)s.data, %(cnt)s)
''' % dict(m=m, cnt=cnt.replace('self->mesh_', m), lim=lim, d=delarr)

def spec_for(name, cnt, delarr, half, hname, _):
    N = '((int)(%s%s))' % (cnt, ' * 2' if half else '')
    def DEL(k): return 'self->mesh_->%s.data[%s]' % (delarr, ('(%s) / 2' % k) if half else k)
    req = common_requires(cnt, delarr, half)
    inc = '''function %(n)s__op_inc__void loops=1
%(req)s  requires -1 <= self->cur_index_ && self->cur_index_ < %(N)s
  assigns self->cur_index_, self->valid_, self->cur_handle_
  ensures __CPROVER_return_value == self
  ensures __CPROVER_old(self->cur_index_) < self->cur_index_ && self->cur_index_ <= %(N)s
  ensures self->cur_index_ < %(N)s ==> !%(delc)s
  ensures (__CPROVER_old(self->cur_index_) < g_k && g_k < self->cur_index_) ==> %(delk)s
  ensures self->cur_index_ == %(N)s ==> !self->valid_
  ensures self->cur_index_ < %(N)s ==> self->valid_ == __CPROVER_old(self->valid_)
  ensures self->cur_handle_.idx_ == self->cur_index_
  loop 0:
    assigns self->cur_index_
    invariant __CPROVER_loop_entry(self->cur_index_) <= self->cur_index_ && self->cur_index_ <= %(N)s
    invariant (__CPROVER_loop_entry(self->cur_index_) <= g_k && g_k < self->cur_index_) ==> %(delk)s
    decreases %(N)s - self->cur_index_
end
''' % dict(n=name, req=req, N=N, delc=DEL('self->cur_index_'), delk=DEL('g_k'))
    dec = '''function %(n)s__op_dec__void loops=1
%(req)s  requires 0 <= self->cur_index_ && self->cur_index_ <= %(N)s
  assigns self->cur_index_, self->valid_, self->cur_handle_
  ensures __CPROVER_return_value == self
  ensures -1 <= self->cur_index_ && self->cur_index_ < __CPROVER_old(self->cur_index_)
  ensures self->cur_index_ >= 0 ==> !%(delc)s
  ensures (self->cur_index_ < g_k && g_k < __CPROVER_old(self->cur_index_)) ==> %(delk)s
  ensures self->cur_index_ == -1 ==> !self->valid_
  ensures self->cur_index_ >= 0 ==> self->valid_ == __CPROVER_old(self->valid_)
  ensures self->cur_handle_.idx_ == self->cur_index_
  loop 0:
    assigns self->cur_index_
    invariant -1 <= self->cur_index_ && self->cur_index_ <= __CPROVER_loop_entry(self->cur_index_)
    invariant (self->cur_index_ < g_k && g_k <= __CPROVER_loop_entry(self->cur_index_)) ==> %(delk)s
    decreases self->cur_index_ + 1
end
''' % dict(n=name, req=req, N=N, delc=DEL('self->cur_index_'), delk=DEL('g_k'))
    # constructor: first live index >= given, or end (invalid)
    reqm = common_requires(cnt, delarr, half, m='_mesh')
    Nm = N.replace('self->mesh_', '_mesh')
    def DELm(k): return DEL(k).replace('self->mesh_', '_mesh')
    hvar = {'VH': '_vh', 'EH': '_eh', 'HEH': '_heh', 'FH': '_fh', 'HFH': '_hfh', 'CH': '_ch'}[hname]
    ctor = '''function %(n)s__ctor__TopologyKernel_p_%(h)s_r loops=1
%(req)s  requires __CPROVER_is_fresh(%(hv)s, sizeof(*%(hv)s))
  requires 0 <= %(hv)s->idx_ && %(hv)s->idx_ <= %(N)s
  assigns self->cur_index_, self->valid_, self->cur_handle_, self->mesh_
  ensures self->mesh_ == _mesh
  ensures %(hv)s->idx_ <= self->cur_index_ && self->cur_index_ <= %(N)s
  ensures self->cur_index_ < %(N)s ==> !%(delc)s
  ensures (%(hv)s->idx_ <= g_k && g_k < self->cur_index_) ==> %(delk)s
  ensures self->valid_ == (self->cur_index_ < %(N)s)
  ensures self->cur_handle_.idx_ == self->cur_index_
  loop 0:
    assigns self->cur_index_
    invariant %(hv)s->idx_ <= self->cur_index_ && self->cur_index_ <= %(N)s && self->mesh_ == _mesh
    invariant (%(hv)s->idx_ <= g_k && g_k < self->cur_index_) ==> %(delk)s
    decreases %(N)s - self->cur_index_
end
''' % dict(n=name, h=hname, hv=hvar, req=reqm.replace('requires __CPROVER_is_fresh(self, sizeof(*self))', 'requires __CPROVER_is_fresh(self, sizeof(*self))'),
           N=Nm, delc=DELm('self->cur_index_'), delk=DELm('g_k'))
    return inc, dec, ctor

def obligations():
    obs = []
    for (name, cnt, delarr, half, hname, _) in ITERS:
        inc, dec, ctor = spec_for(name, cnt, delarr, half, hname, _)
        q = 'OpenVolumeMesh::' + name
        obs.append(Ob(id='C05.%s.inc' % name, props=['C05', 'C20'], tu='kernel', tier='U',
                      roots=[(q + '::operator++', name + ' &()')], spec_text=inc, enforce=name + '__op_inc__void',
                      harness='void harness(void) { ghost_havoc(); struct %s *it; %s__op_inc__void(it); }' % (name, name),
                      note='++ lands on the smallest live index above the current one, or on end (invalid); skips only deleted; all sizes up to INT_MAX'))
        obs.append(Ob(id='C05.%s.dec' % name, props=['C05', 'C20'], tu='kernel', tier='U',
                      roots=[(q + '::operator--', name + ' &()')], spec_text=dec, enforce=name + '__op_dec__void',
                      harness='void harness(void) { ghost_havoc(); struct %s *it; %s__op_dec__void(it); }' % (name, name),
                      note='-- lands on the largest live index below the current one, or on -1 (invalid)'))
        cn = '%s__ctor__TopologyKernel_p_%s_r' % (name, hname)
        obs.append(Ob(id='C05.%s.ctor' % name, props=['C05', 'C20'], tu='kernel', tier='U',
                      roots=[(q + '::' + name, 'const OpenVolumeMesh::TopologyKernel *')], spec_text=ctor, enforce=cn,
                      harness='void harness(void) { ghost_havoc(); struct %s *it; struct TopologyKernel *m; struct %s *h; %s(it, m, h); }' % (name, hname, cn),
                      note='constructor = first live index >= the given one; valid iff such an index exists (begin/end protocol)'))
        # expected to fail on the unchanged tree (DESIGN 6 item 8): -- from the end state restores valid()
        dec_end = dec.replace('function %s__op_dec__void' % name, 'function %s__op_dec__void' % name) \
                     .replace('  ensures self->cur_index_ >= 0 ==> self->valid_ == __CPROVER_old(self->valid_)\n',
                              '  ensures self->cur_index_ >= 0 ==> self->valid_\n') \
                     .replace('  requires 0 <= self->cur_index_ && self->cur_index_ <= %s\n' % ('((int)(%s%s))' % (cnt, ' * 2' if half else '')),
                              '  requires self->cur_index_ == %s && !self->valid_\n' % ('((int)(%s%s))' % (cnt, ' * 2' if half else '')))
        obs.append(Ob(id='C05.%s.dec_from_end' % name, props=['C05'], tu='kernel', tier='U',
                      roots=[(q + '::operator--', name + ' &()')], spec_text=dec_end, enforce=name + '__op_dec__void',
                      harness='void harness(void) { ghost_havoc(); struct %s *it; %s__op_dec__void(it); }' % (name, name),
                      note='backward step from the end state must yield a valid iterator on the last live entity (known finding: valid() is never restored)'))
    return obs
