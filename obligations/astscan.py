"""C20, static supporting fact (tier S, no solver): over the clang AST of the kernel translation unit, the read-only
interface has no hidden shared mutable state:
  1. no `mutable` data member in any OpenVolumeMesh class of the anchored directories, except the storage trackers of
     ResourceManager (which the property itself excludes);
  2. no function-local `static` object and no namespace-scope non-const object in those directories;
  3. no const_cast;
  4. no const member function writes through `this` (assignment, ++/--, assigning operator, or a call of a non-const
     member function on something reached from `this`), except the accessor of the excluded trackers.
A hit does not by itself prove a data race (a cache may be locked), so a hit makes the check UNDECIDED (exit 2) and
names the site. One pattern IS a data race by the C++ memory model and is reported as a violation: a non-const,
non-thread_local, non-atomic function-local static object that a const member function writes while the function uses
no synchronisation primitive (mutex, lock, atomic, call_once): two threads inside that read-only operation perform
conflicting unsynchronised accesses to the same object, whatever mesh they work on. The proof part of C20 is the frame clause of every query/circulator
obligation (state unchanged, compared field by field)."""
import re
from run import Ob
DIRS = ('/src/OpenVolumeMesh/Core/', '/src/OpenVolumeMesh/Mesh/')
ALLOW_MUTABLE = {('OpenVolumeMesh::ResourceManager', 'storage_trackers_')}
ALLOW_WRITER = re.compile(r'^OpenVolumeMesh::ResourceManager::storage_tracker(<.*>)?$')
ASSIGN = {'=', '+=', '-=', '*=', '/=', '|=', '&=', '^=', '<<=', '>>=', '%='}

def walk(n, f):
    f(n)
    for c in n.get('inner', []) or []: walk(c, f)

def rooted_at_this(e):
    while True:
        k = e.get('kind')
        if k == 'CXXThisExpr': return True
        if k in ('MemberExpr', 'ImplicitCastExpr', 'ParenExpr', 'ArraySubscriptExpr', 'UnaryOperator', 'CXXOperatorCallExpr', 'CXXMemberCallExpr', 'MaterializeTemporaryExpr') and e.get('inner'):
            e = e['inner'][1] if (k == 'CXXOperatorCallExpr' and len(e['inner']) > 1) else e['inner'][0]
            continue
        return False

def uses_sync(fn):
    found = []
    def v(n):
        t = (n.get('type') or {}).get('qualType', '') + ' ' + (n.get('type') or {}).get('desugaredQualType', '')
        if re.search(r'\b(mutex|lock_guard|unique_lock|scoped_lock|shared_lock|atomic|once_flag)\b', t) or (n.get('referencedDecl') or {}).get('name') in ('call_once',): found.append(1)
    walk(fn, v)
    return bool(found)

def written(fn, var_id):
    """some use of the variable other than a plain read (lvalue-to-rvalue) or a conversion to const"""
    w = []
    def v(n, parent=None):
        for c in n.get('inner', []) or []:
            if c.get('kind') == 'DeclRefExpr' and (c.get('referencedDecl') or {}).get('id') == var_id:
                read = n.get('kind') == 'ImplicitCastExpr' and (n.get('castKind') == 'LValueToRValue' or (n.get('castKind') == 'NoOp' and (n.get('type') or {}).get('qualType', '').startswith('const ')))
                if not read: w.append(1)
            v(c, n)
    v(fn)
    return bool(w)

def scan(ob, res, ix):
    hits = {1: [], 2: [], 3: [], 4: []}
    races = []
    nrec = nfun = nconst = 0
    for key, rec in ix.records.items():
        if not key.startswith('OpenVolumeMesh') or not any(d in rec.get('_file', '') for d in DIRS): continue
        nrec += 1
        for c in rec.get('inner', []):
            if c.get('kind') == 'FieldDecl' and c.get('mutable') and (re.sub(r'<.*$', '', key), c.get('name')) not in ALLOW_MUTABLE:
                hits[1].append('%s::%s (%s:%s)' % (key, c.get('name'), c.get('_file', '?').split('/src/')[-1], c.get('_line')))
    for nid, n in ix.by_id.items():
        if n.get('kind') == 'VarDecl' and nid in ix.qual and any(d in n.get('_file', '') for d in DIRS):
            t = n['type'].get('desugaredQualType') or n['type']['qualType']
            if not (t.startswith('const ') or ' const' in t or n.get('constexpr')):
                hits[2].append('namespace-scope object %s : %s' % (ix.qual[nid], t))
    for qual, fns in ix.funcs_by_qual.items():
        for fn in fns:
            if fn['id'] in ix.pattern: continue
            d = ix.definition(ix.first.get(fn['id'], fn['id']))
            if d is None or d['id'] != fn['id'] or not any(x in d.get('_file', '') for x in DIRS): continue
            nfun += 1
            isconst = d.get('kind') == 'CXXMethodDecl' and bool(re.search(r'\)\s*const\b', d['type']['qualType']))
            nconst += isconst
            where = lambda n: '%s (%s:%s)' % (qual, d.get('_file', '?').split('/src/')[-1], n.get('_line') or d.get('_line'))
            def visit(n):
                k = n.get('kind')
                if k == 'VarDecl' and n.get('storageClass') == 'static':
                    t = n['type'].get('desugaredQualType') or n['type']['qualType']
                    if not (t.startswith('const ') or n.get('constexpr')):
                        hits[2].append('static local %s in %s' % (n.get('name'), where(n)))
                        if isconst and not n.get('tls') and 'atomic' not in t and not uses_sync(d) and written(d, n['id']):
                            races.append('const member function %s writes its function-local static %s (%s) without synchronisation' % (where(n), n.get('name'), t))
                if k == 'CXXConstCastExpr': hits[3].append(where(n))
                if not isconst or ALLOW_WRITER.match(qual): return
                if k in ('BinaryOperator', 'CompoundAssignOperator') and n.get('opcode') in ASSIGN and rooted_at_this(n['inner'][0]): hits[4].append('assignment in ' + where(n))
                if k == 'UnaryOperator' and n.get('opcode') in ('++', '--') and rooted_at_this(n['inner'][0]): hits[4].append('++/-- in ' + where(n))
                if k == 'CXXOperatorCallExpr' and n['inner'] and n['inner'][0].get('kind') == 'ImplicitCastExpr':
                    rd = n['inner'][0]['inner'][0].get('referencedDecl', {})
                    if rd.get('name') in ('operator=', 'operator+=', 'operator-=', 'operator++', 'operator--') and len(n['inner']) > 1 and rooted_at_this(n['inner'][1]):
                        hits[4].append('%s in %s' % (rd.get('name'), where(n)))
                if k == 'CXXMemberCallExpr' and n['inner'] and n['inner'][0].get('kind') == 'MemberExpr':
                    me = n['inner'][0]; md = ix.by_id.get(me.get('referencedMemberDecl'))
                    if md is not None and md.get('kind') == 'CXXMethodDecl' and md.get('storageClass') != 'static' and not re.search(r'\)\s*const\b', md['type']['qualType']) and rooted_at_this(me['inner'][0]):
                        hits[4].append('call of non-const %s in %s' % (md.get('name'), where(n)))
            walk(d, visit)
    if nrec < 40 or nfun < 500 or nconst < 150:
        res['status'] = 'undecided'; res['reason'] = 'static scan saw too little (%d classes, %d functions, %d const methods): extraction broke' % (nrec, nfun, nconst); return
    names = {1: 'no_mutable_member_besides_the_excluded_storage_trackers', 2: 'no_static_local_or_namespace_scope_mutable_object', 3: 'no_const_cast', 4: 'no_const_member_function_writes_through_this'}
    res['results'] = [('astscan.%d' % k, 'C20.astscan.%s (%d classes, %d functions, %d const member functions scanned)%s' % (names[k], nrec, nfun, nconst, ': ' + '; '.join(sorted(set(hits[k]))[:6]) if hits[k] else ''), 'FAILURE' if hits[k] else 'SUCCESS') for k in (1, 2, 3, 4)]
    if races:
        res['results'].append(('astscan.race', 'C20.astscan.no_unsynchronised_write_to_a_function_local_static_in_a_const_member_function: ' + '; '.join(sorted(set(races))), 'FAILURE'))
        res['status'] = 'fail'; res['reason'] = '; '.join(sorted(set(races)))
    elif any(hits.values()):
        res['status'] = 'undecided'; res['reason'] = 'static fact no longer holds (review needed, not a violation by itself): ' + '; '.join(x for k in hits for x in sorted(set(hits[k]))[:4])
    else:
        res['status'] = 'pass'

def obligations():
    return [Ob(id='C20.astscan', props=['C20'], tu='tethex', tier='S', roots=[], harness='', py_check=scan,
               note='static supporting fact from the clang AST of Core/ and Mesh/: no mutable members (except the excluded trackers), no static locals or mutable globals, no const_cast, no write through this in const member functions. A hit makes the check undecided, never a violation')]
