"""C19 (VectorT algebra), tier U: every operation of VectorT<int,2/3/4>, VectorT<double,2/3/4>, VectorT<float,2/3/4>
and the narrow-scalar VectorT<signed char,3>, VectorT<short,3> that the property names,
against its component-wise definition, for ALL component values (integers: within a range that excludes signed
overflow, which is undefined behaviour of the real code as well; doubles: every bit pattern, NaN compared as NaN).
The loops of the real code run over the compile-time dimension, so the unwinding is complete (unwinding assertions).
The entry points are the one-line instantiation drivers of tu/vector.cc; the bodies proved are the repository's
templates. Not covered here: norm()/length()/normalize*() (CBMC's sqrt is a nondeterministic model), stream I/O
(no stream contents in the model), GeometryKernel/NormalAttrib (need the property storage of positions)."""
from run import Ob
D = 'verif_drv__'

def vec_harness(pfx, N, sc):
    isd = sc in ('double', 'float')      # floating point: every bit pattern, NaN compared as NaN
    narrow = sc in ('signed char', 'short')
    V = 'struct Geometry_VectorT_%s_%d' % (sc.replace(' ', '_'), N)
    big = {'signed char': '40', 'short': '10000'}.get(sc, '1073741823')
    nd = {'signed char': '(signed char)nondet_int', 'short': '(short)nondet_int'}.get(sc, 'nondet_' + sc)
    wide = 'int' if narrow else sc      # decltype(Scalar * Scalar)
    def K(fmt, j=' && '): return j.join(fmt.replace('#', str(k)) for k in range(N))
    EQ = (lambda x, y: 'same_d(%s, %s)' % (x, y)) if isd else (lambda x, y: '(%s) == (%s)' % (x, y))
    C = lambda v, k: '%s.values_.d[%s]' % (v, k)
    sym = lambda name, lim: '  %s %s; %s\n' % (V, name, '' if isd else ' '.join('__CPROVER_assume(%s >= -%s && %s <= %s);' % (C(name, k), lim, C(name, k), lim) for k in range(N)))
    pre = '''
static _Bool same_d(double x, double y) { return x == y || (x != x && y != y); }
static %(sc)s absv(%(sc)s x) { return x < 0 ? -x : x; }
''' % dict(sc=sc)
    H = {}
    def A(cond, name): return '  __CPROVER_assert(%s, "C19.%s.%s");\n' % (cond, pfx, name)
    def allk(f): return ' && '.join(f(k) for k in range(N))
    # ---- arithmetic, component-wise
    body = sym('a', big) + sym('b', big) + '  %s a0 = a, b0 = b;\n' % V
    for op, sign in (('add', '+'), ('sub', '-')):
        body += '  { %s r = %s%s_%s(&a, &b);\n  ' % (V, D, pfx, op) + A(allk(lambda k: EQ(C('r', k), '%s %s %s' % (C('a', k), sign, C('b', k)))), 'operator%s_is_component_wise' % sign) + '  }\n'
        body += '  { %s c = a; %s%s_i%s(&c, &b);\n  ' % (V, D, pfx, op) + A(allk(lambda k: EQ(C('c', k), '%s %s %s' % (C('a', k), sign, C('b', k)))), 'operator%s=_is_component_wise' % sign) + '  }\n'
    body += '  { %s r = %s%s_neg(&a);\n  ' % (V, D, pfx) + A(allk(lambda k: EQ(C('r', k), '-' + C('a', k))), 'negation_is_component_wise') + '  }\n'
    body += A(allk(lambda k: EQ(C('a', k), C('a0', k)) + ' && ' + EQ(C('b', k), C('b0', k))), 'operands_of_the_value_operators_are_unchanged')
    H['addsub'] = body
    lim = {'signed char': '127', 'short': '20000'}.get(sc, '20000')     # |a*b| <= 4e8, sums of up to four products stay below 2^31: no signed overflow is possible in this range
    body = sym('a', lim) + sym('b', lim) + '  %s s = %s();%s\n' % (sc, nd, '' if isd else ' __CPROVER_assume(s >= -%s && s <= %s);' % (lim, lim))
    body += '  { %s r = %s%s_mul(&a, &b);\n  ' % (V, D, pfx) + A(allk(lambda k: EQ(C('r', k), '%s * %s' % (C('a', k), C('b', k)))), 'operator*_vector_is_component_wise') + '  }\n'
    body += '  { %s c = a; %s%s_imul(&c, &b);\n  ' % (V, D, pfx) + A(allk(lambda k: EQ(C('c', k), '%s * %s' % (C('a', k), C('b', k)))), 'operator*=_vector_is_component_wise') + '  }\n'
    body += '  { %s r = %s%s_smul(&a, s); %s l = %s%s_smul_left(&a, s);\n  ' % (V, D, pfx, V, D, pfx) + A(allk(lambda k: EQ(C('r', k), '%s * s' % C('a', k)) + ' && ' + EQ(C('l', k), '%s * s' % C('a', k))), 'scalar_multiplication_from_either_side_is_component_wise') + '  }\n'
    body += '  { %s c = a; %s%s_ismul(&c, s);\n  ' % (V, D, pfx) + A(allk(lambda k: EQ(C('c', k), '%s * s' % C('a', k))), 'operator*=_scalar_is_component_wise') + '  }\n'
    nz = '' if isd else '  __CPROVER_assume(%s);\n  __CPROVER_assume(s != 0);\n' % allk(lambda k: C('b', k) + ' != 0')
    body += nz
    body += '  { %s r = %s%s_div(&a, &b);\n  ' % (V, D, pfx) + A(allk(lambda k: EQ(C('r', k), '%s / %s' % (C('a', k), C('b', k)))), 'operator/_vector_is_component_wise') + '  }\n'
    body += '  { %s c = a; %s%s_idiv(&c, &b);\n  ' % (V, D, pfx) + A(allk(lambda k: EQ(C('c', k), '%s / %s' % (C('a', k), C('b', k)))), 'operator/=_vector_is_component_wise') + '  }\n'
    body += '  { %s r = %s%s_sdiv(&a, s); %s c = a; %s%s_isdiv(&c, s);\n  ' % (V, D, pfx, V, D, pfx) + A(allk(lambda k: EQ(C('r', k), '%s / s' % C('a', k)) + ' && ' + EQ(C('c', k), '%s / s' % C('a', k))), 'scalar_division_is_component_wise') + '  }\n'
    H['muldiv'] = body
    # ---- comparison
    body = sym('a', big) + sym('b', big)
    body += '  _Bool alleq = %s;\n' % allk(lambda k: '%s == %s' % (C('a', k), C('b', k)))
    body += A('%s%s_eq(&a, &b) == alleq && %s%s_ne(&a, &b) == !alleq' % (D, pfx, D, pfx), 'equality_is_all_components_equal')
    lex = '0'
    for k in reversed(range(N)):
        lex = '(%s < %s ? 1 : (%s < %s ? 0 : %s))' % (C('a', k), C('b', k), C('b', k), C('a', k), lex)
    body += A('%s%s_lt(&a, &b) == %s' % (D, pfx, lex), 'operator<_is_the_lexicographic_order')
    H['compare'] = body
    # ---- products
    body = sym('a', lim) + sym('b', lim)
    dot = ' + '.join('%s * %s' % (C('a', k), C('b', k)) for k in range(N))
    body += '  %s d = %s;\n' % (wide, dot)
    body += A('%s && %s && %s' % (EQ('%s%s_dot(&a, &b)' % (D, pfx), 'd'), EQ('%s%s_dot_free(&a, &b)' % (D, pfx), '(%s)d' % sc), EQ('%s%s_dot_member(&a, &b)' % (D, pfx), 'd')), 'dot_product_is_the_sum_of_component_products (operator| and member dot in the promoted type, the free dot() converted to its declared Scalar result)')
    body += A(EQ('%s%s_sqrnorm(&a)' % (D, pfx), ' + '.join('%s * %s' % (C('a', k), C('a', k)) for k in range(N))), 'sqrnorm_is_the_sum_of_squares')
    if N == 3:
        cr = ['%s * %s - %s * %s' % (C('a', 1), C('b', 2), C('a', 2), C('b', 1)), '%s * %s - %s * %s' % (C('a', 2), C('b', 0), C('a', 0), C('b', 2)), '%s * %s - %s * %s' % (C('a', 0), C('b', 1), C('a', 1), C('b', 0))]
        RV = 'struct Geometry_VectorT_int_3' if narrow else V
        body += '  { %s r = %s%s_cross(&a, &b);\n  ' % (RV, D, pfx) + A(allk(lambda k: EQ(C('r', k), cr[k])), 'cross_product_formula') + '  }\n'
        if not isd:
            body += '  { %s r = %s%s_cross_free(&a, &b); %s q = %s%s_cross_member(&a, &b);\n  ' % (RV, D, pfx, RV, D, pfx) + A(allk(lambda k: EQ(C('r', k), cr[k]) + ' && ' + EQ(C('q', k), cr[k])), 'cross_free_and_member_forms_agree') + '  }\n'
    H['products'] = body
    # ---- reductions
    body = sym('a', big)
    if isd: body += '  __CPROVER_assume(%s);   /* the order-based reductions are specified for ordered (non-NaN) components */\n' % allk(lambda k: '%s == %s' % (C('a', k), C('a', k)))
    body += '  %s mx = %s%s_max(&a), mn = %s%s_min(&a), mxa = %s%s_max_abs(&a), mna = %s%s_min_abs(&a);\n' % (sc, D, pfx, D, pfx, D, pfx, D, pfx)
    body += A('(%s) && (%s)' % (allk(lambda k: 'mx >= ' + C('a', k)), K('mx == ' + C('a', '#'), ' || ')), 'max_is_the_largest_component')
    body += A('(%s) && (%s)' % (allk(lambda k: 'mn <= ' + C('a', k)), K('mn == ' + C('a', '#'), ' || ')), 'min_is_the_smallest_component')
    body += A('(%s) && (%s)' % (allk(lambda k: 'mxa >= absv(%s)' % C('a', k)), K('mxa == absv(%s)' % C('a', '#'), ' || ')), 'max_abs_is_the_largest_absolute_value')
    body += A('(%s) && (%s)' % (allk(lambda k: 'mna <= absv(%s)' % C('a', k)), K('mna == absv(%s)' % C('a', '#'), ' || ')), 'min_abs_is_the_smallest_absolute_value')
    body += A(EQ('%s%s_l8_norm(&a)' % (D, pfx), 'mxa'), 'l8_norm_is_the_largest_absolute_value')
    H['minmax'] = body
    body = sym('a', {'signed char': '40', 'short': '10000'}.get(sc, '100000000'))
    body += A(EQ('%s%s_l1_norm(&a)' % (D, pfx), ' + '.join('absv(%s)' % C('a', k) for k in range(N))), 'l1_norm_is_the_sum_of_absolute_values')
    body += A(EQ('%s%s_mean(&a)' % (D, pfx), '(%s) / %d' % (' + '.join(C('a', k) for k in range(N)), N)), 'mean_is_the_sum_of_components_over_the_dimension')
    body += A(EQ('%s%s_mean_abs(&a)' % (D, pfx), '(%s) / %d' % (' + '.join('absv(%s)' % C('a', k) for k in range(N)), N)), 'mean_abs_is_the_sum_of_absolute_values_over_the_dimension')
    H['norms'] = body
    # ---- minimize / maximize
    body = sym('a', big) + sym('b', big)
    if isd: body += '  __CPROVER_assume(%s);\n' % allk(lambda k: '%s == %s && %s == %s' % (C('a', k), C('a', k), C('b', k), C('b', k)))
    MIN = lambda k: '(%s < %s ? %s : %s)' % (C('b', k), C('a', k), C('b', k), C('a', k))
    MAX = lambda k: '(%s < %s ? %s : %s)' % (C('a', k), C('b', k), C('b', k), C('a', k))
    body += '  { %s c = a; %s%s_minimize(&c, &b); %s r = %s%s_vmin(&a, &b);\n  ' % (V, D, pfx, V, D, pfx) + A(allk(lambda k: EQ(C('c', k), MIN(k)) + ' && ' + EQ(C('r', k), MIN(k))), 'minimize_and_min_are_the_component_wise_minimum') + '  }\n'
    body += '  { %s c = a; %s%s_maximize(&c, &b); %s r = %s%s_vmax(&a, &b);\n  ' % (V, D, pfx, V, D, pfx) + A(allk(lambda k: EQ(C('c', k), MAX(k)) + ' && ' + EQ(C('r', k), MAX(k))), 'maximize_and_max_are_the_component_wise_maximum') + '  }\n'
    body += '  { %s c = a; _Bool ch = %s%s_minimized(&c, &b);\n  ' % (V, D, pfx) + A(allk(lambda k: EQ(C('c', k), MIN(k))) + ' && ch == (%s)' % K('!(%s < %s)' % (C('a', '#'), C('b', '#')), ' || '), 'minimized_takes_the_minimum_and_signals_a_component_taken_from_the_argument') + '  }\n'
    body += '  { %s c = a; _Bool ch = %s%s_maximized(&c, &b);\n  ' % (V, D, pfx) + A(allk(lambda k: EQ(C('c', k), MAX(k))) + ' && ch == (%s)' % K('!(%s > %s)' % (C('a', '#'), C('b', '#')), ' || '), 'maximized_takes_the_maximum_and_signals_a_component_taken_from_the_argument') + '  }\n'
    H['minimize'] = body
    # ---- construction / access
    body = sym('a', big) + sym('b', big) + '  %s s = %s(); unsigned long i = nondet_ulong(); __CPROVER_assume(i < %d);\n' % (sc, nd, N)
    body += '  { %s r = %s%s_vectorized(s); %s q = %s%s_from_scalar(s);\n  ' % (V, D, pfx, V, D, pfx) + A(allk(lambda k: EQ(C('r', k), 's') + ' && ' + EQ(C('q', k), 's')), 'scalar_constructor_and_vectorized_fill_every_component') + '  }\n'
    body += A(EQ('%s%s_at(&a, i)' % (D, pfx), C('a', 'i')), 'operator[]_is_the_component')
    body += '  { %s x = a, y = b; %s%s_swap(&x, &y);\n  ' % (V, D, pfx) + A(allk(lambda k: EQ(C('x', k), C('b', k)) + ' && ' + EQ(C('y', k), C('a', k))), 'swap_exchanges_the_vectors') + '  }\n'
    H['construct'] = body
    return pre, H

EXTRA = '''
static _Bool same_d(double x, double y) { return x == y || (x != x && y != y); }
void harness(void) {
  struct Geometry_VectorT_int_3 a; struct Geometry_VectorT_double_3 d; struct Geometry_VectorT_double_4 h;
  int x = nondet_int(), y = nondet_int(), z = nondet_int();
  { struct Geometry_VectorT_int_3 r = verif_drv__i3_make(x, y, z);
    __CPROVER_assert(r.values_.d[0] == x && r.values_.d[1] == y && r.values_.d[2] == z, "C19.convert.component_constructor_stores_its_arguments_in_order"); }
  { struct Geometry_VectorT_double_3 r = verif_drv__d3_from_i3(&a);
    __CPROVER_assert(r.values_.d[0] == (double)a.values_.d[0] && r.values_.d[1] == (double)a.values_.d[1] && r.values_.d[2] == (double)a.values_.d[2], "C19.convert.int_to_double_vector_converts_each_component"); }
  { struct Geometry_VectorT_double_3 r; verif_drv__d3_assign_i3(&r, &a);
    __CPROVER_assert(r.values_.d[0] == (double)a.values_.d[0] && r.values_.d[1] == (double)a.values_.d[1] && r.values_.d[2] == (double)a.values_.d[2], "C19.convert.converting_assignment_converts_each_component"); }
  { __CPROVER_assume(d.values_.d[0] > -2147483648.0 && d.values_.d[0] < 2147483648.0 && d.values_.d[1] > -2147483648.0 && d.values_.d[1] < 2147483648.0 && d.values_.d[2] > -2147483648.0 && d.values_.d[2] < 2147483648.0);
    struct Geometry_VectorT_int_3 r = verif_drv__i3_from_d3(&d);
    __CPROVER_assert(r.values_.d[0] == (int)d.values_.d[0] && r.values_.d[1] == (int)d.values_.d[1] && r.values_.d[2] == (int)d.values_.d[2], "C19.convert.double_to_int_vector_truncates_each_component");
    struct Geometry_VectorT_float_3 f = verif_drv__f3_from_d3(&d);
    __CPROVER_assert(f.values_.d[0] == (float)d.values_.d[0] && f.values_.d[1] == (float)d.values_.d[1] && f.values_.d[2] == (float)d.values_.d[2], "C19.convert.double_to_float_vector_rounds_each_component"); }
  { int buf[3] = {x, y, z}; struct Geometry_VectorT_int_3 r = verif_drv__i3_from_ptr(buf);
    __CPROVER_assert(r.values_.d[0] == x && r.values_.d[1] == y && r.values_.d[2] == z, "C19.convert.iterator_constructor_copies_dim_components"); }
  { struct Geometry_VectorT_double_4 r = verif_drv__d4_homogenized(&h); double w = h.values_.d[3];
    __CPROVER_assert(same_d(r.values_.d[0], h.values_.d[0] / w) && same_d(r.values_.d[1], h.values_.d[1] / w) && same_d(r.values_.d[2], h.values_.d[2] / w) && r.values_.d[3] == 1.0, "C19.convert.homogenized_divides_by_the_last_component"); }
}
'''

def obligations():
    obs = []
    Q = 'OpenVolumeMesh::verif_drv::'
    GROUP_FUNCS = {'addsub': ['add', 'sub', 'iadd', 'isub', 'neg'], 'muldiv': ['mul', 'imul', 'smul', 'smul_left', 'ismul', 'div', 'idiv', 'sdiv', 'isdiv'], 'compare': ['eq', 'ne', 'lt'],
                   'products': ['dot', 'dot_free', 'dot_member', 'sqrnorm'], 'minmax': ['max', 'min', 'max_abs', 'min_abs', 'l8_norm'], 'norms': ['l1_norm', 'mean', 'mean_abs'],
                   'minimize': ['minimize', 'maximize', 'vmin', 'vmax', 'minimized', 'maximized'], 'construct': ['vectorized', 'from_scalar', 'at', 'swap']}
    for pfx, N, sc in (('i3', 3, 'int'), ('i2', 2, 'int'), ('i4', 4, 'int'), ('d3', 3, 'double'), ('c3', 3, 'signed char'), ('s3', 3, 'short'), ('d2', 2, 'double'), ('d4', 4, 'double'), ('f3', 3, 'float'), ('f2', 2, 'float'), ('f4', 4, 'float')):
        pre, H = vec_harness(pfx, N, sc)
        for g, body in H.items():
            if sc in ('signed char', 'short') and g in ('muldiv',): continue      # narrow scalars: the groups whose result type is promoted (products, norms) and the order-based ones
            roots = [Q + pfx + '_' + f for f in GROUP_FUNCS[g]]
            if g == 'products' and N == 3: roots += [Q + pfx + '_cross'] + ([Q + pfx + '_cross_free', Q + pfx + '_cross_member'] if sc not in ('double', 'float') else [])
            obs.append(Ob(id='C19.%s.%s' % (pfx, g), props=['C19'], quick_for=['C19'] if pfx in ('i3', 'd3') or (pfx == 'c3' and g in ('products', 'norms')) else [], tu='vector', cfg='plain', tier='U', roots=roots,
                          harness=pre + 'void harness(void) {\n' + body + '}\n', unwind=N + 2, adaptive_unwind=False, timeout=900,
                          flags=((['--div-by-zero-check', '-no:--signed-overflow-check'] + (['--z3'] if g == 'muldiv' else []) if g in ('muldiv', 'products') else ['--div-by-zero-check']) if sc not in ('double', 'float') else (['--cvc5', '--fpa'] if g in ('addsub', 'muldiv', 'products', 'norms') else [])),
                          note='VectorT<%s,%d> %s operations against their component-wise definitions, all component values%s' % (sc, N, g, ' within the stated no-overflow range' if sc == 'int' else ' (every bit pattern)')))
    obs.append(Ob(id='C19.convert', props=['C19'], quick_for=['C19'], tu='vector', cfg='plain', tier='U', roots=[Q + f for f in ('i3_make', 'd3_from_i3', 'd3_assign_i3', 'i3_from_d3', 'f3_from_d3', 'i3_from_ptr', 'd4_homogenized')],
                  harness=EXTRA, unwind=6, adaptive_unwind=False, timeout=900, flags=['--z3', '--fpa'], note='conversions between scalar types, component/iterator constructors, homogenized()'))
    return obs
