"""C17 (index swaps are pure relabelings), tier B: symbolic WF pre-state, transposition applied everywhere,
involution, self-swap no-op; every bottom-up subset the function reads (C12); ghost properties (C03)."""
from run import Ob
TK = 'OpenVolumeMesh::TopologyKernel'
import os
INLINE = os.environ.get('VERIF_INLINE', '0') == '1'   # inline-array vstd mode: CBMC 6.11 gave unreproducible counterexamples with it (DESIGN 2.15); off

caps = None

from obligations._mesh import MeshHarness, caps as mcaps

def A(cond, name, n): return '  __CPROVER_assert(%s, "C17.%s.%s");' % (cond, n, name)

POSTS = {
 'cell': dict(H='CH', N='m.cells_.size', F='TopologyKernel__swap_cell_indices', COVER='!CDEL(&m, a) && CVAL(&m, a) > 0',
   post=lambda n: '\n'.join([
     A('map_cells(&o, &m, t, RHO_NONE, 0, -1, 0)', 'cells_transposed', n),
     A('map_bools(&o.cell_deleted_, &m.cell_deleted_, t, -1, LC, 0)', 'deleted_flags_transposed', n),
     A('map_ints(&o.ghost_c, &m.ghost_c, t, 0, -1, LC, 0)', 'cell_props_transposed (C03)', n),
     A('map_fcache(&o, &m, RHO_NONE, t, -1, 0)', 'incident_cell_relabelled', n),
     A('map_edges(&o, &m, RHO_NONE, RHO_NONE, 0, -1, 0) && map_faces(&o, &m, RHO_NONE, RHO_NONE, 0, -1, 0) && map_vcache(&o, &m, RHO_NONE, RHO_NONE, -1, 0) && map_ecache(&o, &m, RHO_NONE, RHO_NONE, -1, 0)', 'other_topology_untouched', n),
     A('map_bools(&o.vertex_deleted_, &m.vertex_deleted_, RHO_NONE, -1, LV, 0) && map_bools(&o.edge_deleted_, &m.edge_deleted_, RHO_NONE, -1, LE, 0) && map_bools(&o.face_deleted_, &m.face_deleted_, RHO_NONE, -1, LF, 0)', 'other_flags_untouched', n),
     A('map_ints(&o.ghost_v, &m.ghost_v, RHO_NONE, 0, -1, LV, 0) && map_ints(&o.ghost_e, &m.ghost_e, RHO_NONE, 0, -1, LE, 0) && map_ints(&o.ghost_he, &m.ghost_he, RHO_NONE, 0, -1, 2 * LE, 0) && map_ints(&o.ghost_f, &m.ghost_f, RHO_NONE, 0, -1, LF, 0) && map_ints(&o.ghost_hf, &m.ghost_hf, RHO_NONE, 0, -1, 2 * LF, 0)', 'other_props_untouched (C03)', n)])),
 'face': dict(H='FH', N='m.faces_.size', F='TopologyKernel__swap_face_indices', COVER='!FDEL(&m, a) && FVAL(&m, a) > 0 && m.cells_.size > 0',
   post=lambda n: '\n'.join([
     A('map_faces(&o, &m, t, RHO_NONE, 0, -1, 0)', 'faces_transposed', n),
     A('map_bools(&o.face_deleted_, &m.face_deleted_, t, -1, LF, 0)', 'deleted_flags_transposed', n),
     A('map_ints(&o.ghost_f, &m.ghost_f, t, 0, -1, LF, 0) && map_ints(&o.ghost_hf, &m.ghost_hf, t, 1, -1, 2 * LF, 0)', 'face_and_halfface_props_transposed_side_by_side (C03)', n),
     A('map_cells(&o, &m, RHO_NONE, t, 1, -1, 0)', 'live_cell_definitions_relabelled', n),
     A('map_fcache(&o, &m, t, RHO_NONE, -1, 0)', 'incident_cell_moved_with_halfface', n),
     A('map_ecache(&o, &m, RHO_NONE, t, -1, 0)', 'incident_halffaces_relabelled', n),
     A('map_edges(&o, &m, RHO_NONE, RHO_NONE, 0, -1, 0) && map_vcache(&o, &m, RHO_NONE, RHO_NONE, -1, 0)', 'other_topology_untouched', n),
     A('map_bools(&o.vertex_deleted_, &m.vertex_deleted_, RHO_NONE, -1, LV, 0) && map_bools(&o.edge_deleted_, &m.edge_deleted_, RHO_NONE, -1, LE, 0) && map_bools(&o.cell_deleted_, &m.cell_deleted_, RHO_NONE, -1, LC, 0)', 'other_flags_untouched', n),
     A('map_ints(&o.ghost_v, &m.ghost_v, RHO_NONE, 0, -1, LV, 0) && map_ints(&o.ghost_e, &m.ghost_e, RHO_NONE, 0, -1, LE, 0) && map_ints(&o.ghost_he, &m.ghost_he, RHO_NONE, 0, -1, 2 * LE, 0) && map_ints(&o.ghost_c, &m.ghost_c, RHO_NONE, 0, -1, LC, 0)', 'other_props_untouched (C03)', n)])),
 'edge': dict(H='EH', N='m.edges_.size', F='TopologyKernel__swap_edge_indices', COVER='!EDEL(&m, a) && m.faces_.size > 0',
   post=lambda n: '\n'.join([
     A('map_edges(&o, &m, t, RHO_NONE, 0, -1, 0)', 'edges_transposed', n),
     A('map_bools(&o.edge_deleted_, &m.edge_deleted_, t, -1, LE, 0)', 'deleted_flags_transposed', n),
     A('map_ints(&o.ghost_e, &m.ghost_e, t, 0, -1, LE, 0) && map_ints(&o.ghost_he, &m.ghost_he, t, 1, -1, 2 * LE, 0)', 'edge_and_halfedge_props_transposed_side_by_side (C03)', n),
     A('map_faces(&o, &m, RHO_NONE, t, 1, -1, 0)', 'live_face_definitions_relabelled', n),
     A('map_vcache(&o, &m, RHO_NONE, t, -1, 0)', 'outgoing_halfedges_relabelled', n),
     A('map_ecache(&o, &m, t, RHO_NONE, -1, 0)', 'incident_halffaces_moved_with_halfedge', n),
     A('map_cells(&o, &m, RHO_NONE, RHO_NONE, 0, -1, 0) && map_fcache(&o, &m, RHO_NONE, RHO_NONE, -1, 0)', 'other_topology_untouched', n),
     A('map_bools(&o.vertex_deleted_, &m.vertex_deleted_, RHO_NONE, -1, LV, 0) && map_bools(&o.face_deleted_, &m.face_deleted_, RHO_NONE, -1, LF, 0) && map_bools(&o.cell_deleted_, &m.cell_deleted_, RHO_NONE, -1, LC, 0)', 'other_flags_untouched', n),
     A('map_ints(&o.ghost_v, &m.ghost_v, RHO_NONE, 0, -1, LV, 0) && map_ints(&o.ghost_f, &m.ghost_f, RHO_NONE, 0, -1, LF, 0) && map_ints(&o.ghost_hf, &m.ghost_hf, RHO_NONE, 0, -1, 2 * LF, 0) && map_ints(&o.ghost_c, &m.ghost_c, RHO_NONE, 0, -1, LC, 0)', 'other_props_untouched (C03)', n)])),
 'vertex': dict(H='VH', N='m.n_vertices_', F='TopologyKernel__swap_vertex_indices', COVER='!VDEL(&m, a) && m.edges_.size > 0',
   post=lambda n: '\n'.join([
     A('map_edges(&o, &m, RHO_NONE, t, 1, -1, 0)', 'live_edge_endpoints_relabelled', n),
     A('map_bools(&o.vertex_deleted_, &m.vertex_deleted_, t, -1, LV, 0)', 'deleted_flags_transposed', n),
     A('map_ints(&o.ghost_v, &m.ghost_v, t, 0, -1, LV, 0)', 'vertex_props_transposed (C03)', n),
     A('map_vcache(&o, &m, t, RHO_NONE, -1, 0)', 'outgoing_lists_moved_with_vertex', n),
     A('map_faces(&o, &m, RHO_NONE, RHO_NONE, 0, -1, 0) && map_cells(&o, &m, RHO_NONE, RHO_NONE, 0, -1, 0) && map_ecache(&o, &m, RHO_NONE, RHO_NONE, -1, 0) && map_fcache(&o, &m, RHO_NONE, RHO_NONE, -1, 0)', 'other_topology_untouched', n),
     A('map_bools(&o.edge_deleted_, &m.edge_deleted_, RHO_NONE, -1, LE, 0) && map_bools(&o.face_deleted_, &m.face_deleted_, RHO_NONE, -1, LF, 0) && map_bools(&o.cell_deleted_, &m.cell_deleted_, RHO_NONE, -1, LC, 0)', 'other_flags_untouched', n),
     A('map_ints(&o.ghost_e, &m.ghost_e, RHO_NONE, 0, -1, LE, 0) && map_ints(&o.ghost_he, &m.ghost_he, RHO_NONE, 0, -1, 2 * LE, 0) && map_ints(&o.ghost_f, &m.ghost_f, RHO_NONE, 0, -1, LF, 0) && map_ints(&o.ghost_hf, &m.ghost_hf, RHO_NONE, 0, -1, 2 * LF, 0) && map_ints(&o.ghost_c, &m.ghost_c, RHO_NONE, 0, -1, LC, 0)', 'other_props_untouched (C03)', n)])),
}
# which bottom-up flags each function reads; other flags fixed to 0 (their caches are then empty and untouched)
READS = {'cell': 'f', 'face': 'ef', 'edge': 've', 'vertex': 'v'}

def QF(kind, on, reads):
    if kind == 'face' and on == 'ef': return []                      # 500 s: thorough only
    q = ['C17']
    if on in ('', reads): q.append('C03')                              # ghost-property clauses: all-off and all-on subsets
    if on not in ('', reads): q.append('C12')                          # mixed subsets
    return q

def obligations():
    obs = []
    for kind, P in POSTS.items():
        reads = READS[kind]
        for mask in range(1 << len(reads)):
            on = ''.join(ch for i, ch in enumerate(reads) if mask >> i & 1)
            n = 'swap_%s.bu_%s' % (kind, on or 'none')
            cp = dict(v=2, e=2, f=2, c=2, fv=2, cv=2, out=2, inc=2)
            # the swapped kind gets a third slot only in the thorough tier
            if 'e' in on and kind == 'face': cp.update(v=1, e=1)      # edge-cache configurations of swap_face: one edge (cost, DESIGN 2.12)
            d = mcaps(**cp)
            d.update(CFG_V=int('v' in on), CFG_E=int('e' in on), CFG_F=int('f' in on), CFG_DEFERRED=1, CFG_FAST=0)
            mh = MeshHarness(
                args='  int a = ARG(0), b = ARG(1);\n  __CPROVER_assume(0 <= a && (unsigned long)a < %(N)s && 0 <= b && (unsigned long)b < %(N)s);' % P,
                snap='  witness(&o, a, b, 0, 0);\n  COVER(a != b, "distinct handles");\n  COVER(a != b && %(COVER)s, "non-trivial entity");' % P,
                call='  { struct %(H)s ha; ha.idx_ = a; struct %(H)s hb; hb.idx_ = b; %(F)s(&m, ha, hb); }' % P,
                post='\n'.join(['  struct rho t; t.mode = RHO_SWAP; t.a = a; t.b = b;',
                                A('ovm_exc == 0', 'no_exception', n),
                                A('wf(&m)', 'wf_preserved (caches stay the inverse of the definitions: C01)', n),
                                A('same_modes(&o, &m) && same_counters(&o, &m) && o.n_vertices_ == m.n_vertices_', 'modes_counters_unchanged', n),
                                P['post'](n),
                                A('a != b || same_state(&o, &m)', 'self_swap_is_noop', n)]),
                call2='  { struct %(H)s ha; ha.idx_ = a; struct %(H)s hb; hb.idx_ = b; %(F)s(&m, ha, hb); }' % P,
                post2=A('same_state(&o, &m)', 'swap_twice_is_identity', n),
                op='swap_' + kind, op2='swap_%s2' % kind)
            obs.append(Ob(id='C17.' + n, props=['C17', 'C12', 'C03', 'C01'], tu='kernel', tier='B',
                          roots=[TK + '::swap_%s_indices' % kind], harness=mh, includes=['wf.h', 'view.h'],
                          copies=[TK], defines=d, inline_vec=INLINE, unwind=6, covers=2, timeout=900, quick_for=QF(kind, on, reads),
                          bounds=dict(vertices=2, edges=2, faces=2, cells=2, face_valence=2, cell_valence=2, incident_list=2),
                          note='swap_%s_indices on any WF state within the bounds; bottom-up kinds enabled: %s' % (kind, on or 'none')))
    return obs
