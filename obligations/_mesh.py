"""Sectioned harness for kernel mutator obligations on symbolic WF mesh states (tier B).
The same ARGS/CALL/POST text is compiled twice: for CBMC (symbolic pre-state) and natively for replay
(pre-state decoded from the counterexample; 'real' mode takes the post-state from the real library)."""

class MeshHarness:
    def __init__(self, args, call, post, op, snap='', call2='', post2='', op2=None, extra_args='', pre_assume='', list_arg=None, pre=None):
        self.args = args          # C: declarations using ARG(i), plus __CPROVER_assume on their ranges
        self.call = call          # C: the call under test (may set `ret`)
        self.post = post          # C: __CPROVER_assert lines over o (snapshot), m, args
        self.op = op              # operation name understood by replay/native_main.cc
        self.snap = snap
        self.call2 = call2; self.post2 = post2; self.op2 = op2
        self.pre_assume = pre_assume   # extra assumptions on the pre-state (after wf)
        self.list_arg = list_arg       # name of an int array + length variable passed as list argument (native: extra ints)
        self.pre = pre or '  TK m; sym_mesh(&m); __CPROVER_assume(wf(&m));'

    def cbmc_text(self):
        return '''
#define ARG(i) nondet_int()
#define LISTN() nondet_int()
#define LISTV(i) nondet_int()
#define MODE_IS_REAL 0
void harness(void) {
%(prest)s
  int ret = 0; int ret_exc = 0; int rn = 0; int rv[8] = {0, 0, 0, 0, 0, 0, 0, 0};
%(args)s
%(pre)s
  TK o = TopologyKernel__copy(&m);
%(snap)s
  COVER_END;
%(call)s
%(post)s
%(call2)s
%(post2)s
}
''' % dict(args=self.args, pre=self.pre_assume, snap=self.snap, call=self.call, post=self.post, call2=self.call2, post2=self.post2, prest=self.pre)

    def native_text(self):
        return '''
static int *W_PRE, *W_POST, *W_POST2; static int MODE_REAL; static int NARGS[4]; static int XLIST[64]; static int XLIST_N; static int XRET[8]; static int XRET_N;
#define ARG(i) (NARGS[i])
#define LISTN() (XLIST_N)
#define LISTV(i) (XLIST[i])
#define MODE_IS_REAL MODE_REAL
int native_check(void) {
  TK m; unwitness(W_PRE, &m, NARGS);
  int ret = 0; int ret_exc = 0; int rn = 0; int rv[8] = {0, 0, 0, 0, 0, 0, 0, 0};
%(args)s
%(pre)s
  __CPROVER_assume(wf(&m));
  TK o = TopologyKernel__copy(&m);
  int pa[4];
  if (MODE_REAL) { unwitness(W_POST, &m, pa); ret = pa[2]; ret_exc = pa[3]; rn = XRET_N; for (int i = 0; i < 8; i++) rv[i] = XRET[i]; }
  else {
%(call)s
  }
%(post)s
  if (MODE_REAL) { if (W_POST2) { unwitness(W_POST2, &m, pa); ret = pa[2]; ret_exc = pa[3]; } else return 0; }
  else {
%(call2)s
  }
%(post2)s
  return 0;
}
''' % dict(args=self.args, pre=self.pre_assume, call=self.call, post=self.post, call2=self.call2, post2=self.post2)

def caps(v, e, f, c, fv, cv, out, inc, gv=0, ge=0, gf=0, gc=0, gfv=0, gcv=0, gout=0, ginc=0):
    """pre-state caps P* and loop bounds L* (= caps + growth)"""
    d = dict(PV=v, PE=e, PF=f, PC=c, PFV=fv, PCV=cv, POUT=out, PINC=inc)
    d.update(dict(LV=v + gv, LE=e + ge, LF=f + gf, LC=c + gc, LFV=fv + gfv, LCV=cv + gcv, LOUT=out + gout, LINC=inc + ginc))
    d['VSTD_CAP_DEFAULT'] = max(d['LV'], 2 * d['LE'], 2 * d['LF'], d['LC'], d['LFV'], d['LCV'], d['LOUT'], d['LINC'], 2)
    return d
