"""C15, TetTopology (tier B on the shapes tet and two-tets; cell, first halfface, start vertex and label symbolic):
the constructor labels four distinct vertices of the cell - A,B,C the given halfface in its cyclic order from the
requested vertex, D the apex -, every labelled halfedge joins its two labelled vertices, every labelled halfface is the
cell's halfface opposite the labelled vertex; triangle_topology(label) returns, for each of the 24 labels with a start
vertex, the triangle on the vertices the label names, in that rotation, on the cell's halfface (inner labels) or its
opposite (outer labels). The table label -> letters below is generated from the enumerator NAMES of the header."""
import re
from run import Ob, REPO
from obligations._mesh import MeshHarness
from obligations.query import SHAPES, DEFS, ROOTS_BUILD, rng, NC, TK
from obligations.tet import HELP
def A(cond, name, n): return '  __CPROVER_assert(%s, "C15.%s.%s");' % (cond, n, name)

def label_table():
    src = open(REPO + '/src/OpenVolumeMesh/Unstable/Topology/TetTopology.hh').read()
    body = src[src.index('enum HalfFaceLabel'):]; body = body[body.index('{') + 1: body.index('};')]
    vals = {}
    for part in body.replace('\n', ' ').split(','):
        part = part.strip()
        if not part: continue
        name, expr = [x.strip() for x in part.split('=')]
        v = eval(re.sub(r'[A-Za-z]\w*', lambda m: str(vals[m.group(0)]), expr))
        vals[name] = v
    rows = []
    for name, v in sorted(vals.items(), key=lambda kv: kv[1]):
        if re.fullmatch(r'[ABCD]{3}', name): rows.append((v, ['ABCD'.index(ch) for ch in name]))
    if len(rows) != 24: raise RuntimeError('must-fire: expected 24 halfface labels with a start vertex, found %d' % len(rows))
    return rows

def obligations():
    obs = []
    rows = label_table()
    tab = 'static const int LBL[24][4] = {%s};\n' % ', '.join('{%d, %d, %d, %d}' % (v, l[0], l[1], l[2]) for v, l in rows)
    for sh in ('tet', 'twotets'):
        n = 'tet_topology.' + sh
        pre = '  TK m; { static const int W0[] = {SHAPE_W}; int aa[4]; unwitness(W0, &m, aa); }'
        args = '  int c = ARG(0), k = ARG(1), j = ARG(2), li = ARG(3);\n  __CPROVER_assume(%s && 0 <= k && k < 4 && -1 <= j && j < 3 && 0 <= li && li < 24);' % rng('c', NC)
        call = '''  int abc = CHF(&m, c, k); int a = j < 0 ? -1 : spec_hf_vertex(&m, abc, j);
  struct TetTopology t; struct TriangleTopology r;
  { struct CH hc; hc.idx_ = c; struct HFH hh; hh.idx_ = abc; struct VH ha; ha.idx_ = a;
    TetTopology__ctor__TopologyKernel_r_CH_HFH_VH(&t, &m, hc, hh, ha);
    r = TetTopology__triangle_topology__TetTopology_HalfFaceLabel_c(&t, (unsigned char)LBL[li][0]); }'''
        post = ['  int V[4]; for (int i = 0; i < 4; i++) V[i] = t.vh_.d[i].idx_;',
                '  int j0 = j < 0 ? 0 : j;',
                A('V[0] == spec_hf_vertex(&m, abc, j0) && V[1] == spec_hf_vertex(&m, abc, (j0 + 1) % 3) && V[2] == spec_hf_vertex(&m, abc, (j0 + 2) % 3)', 'A_B_C_are_the_given_halfface_in_its_cyclic_order_from_the_requested_vertex', n),
                A('V[3] == spec_apex(&m, c, abc) && V[3] != V[0] && V[3] != V[1] && V[3] != V[2] && V[0] != V[1] && V[1] != V[2] && V[0] != V[2]', 'D_is_the_apex_and_the_four_vertices_are_distinct', n),
                '  static const int HE[6][2] = {{0,1},{1,2},{2,0},{2,3},{0,3},{1,3}};   /* AB BC CA CD AD BD */',
                '  _Bool heok = 1; for (int e = 0; e < 6; e++) { int h = t.heh_.d[e].idx_; if (!(h >= 0 && (unsigned long)h < 2 * m.edges_.size && HEFROM(&m, h) == V[HE[e][0]] && HETO(&m, h) == V[HE[e][1]])) heok = 0; }',
                A('heok', 'every_labelled_halfedge_joins_its_two_labelled_vertices', n),
                '  _Bool hfok = 1; for (int x = 0; x < 4; x++) { int h = t.hfh_.d[x].idx_; if (!(h >= 0 && spec_cell_lists(&m, c, h) && !spec_vertex_in_hf(&m, h, V[x]))) hfok = 0; }',
                A('hfok', 'every_labelled_halfface_is_the_cells_halfface_opposite_the_labelled_vertex', n),
                '  int l0 = LBL[li][1], l1 = LBL[li][2], l2 = LBL[li][3]; int miss = 6 - l0 - l1 - l2; _Bool inner = (LBL[li][0] & 16) == 0;',
                A('r.vh_.d[0].idx_ == V[l0] && r.vh_.d[1].idx_ == V[l1] && r.vh_.d[2].idx_ == V[l2]', 'triangle_topology_names_the_vertices_of_the_label_in_its_rotation', n),
                '  int lhf = inner ? t.hfh_.d[miss].idx_ : (t.hfh_.d[miss].idx_ ^ 1);      /* the labelled halfface: the cells halfface opposite the missing vertex, or for outer labels its opposite */',
                '  _Bool tre = 1; for (int i = 0; i < 3; i++) { int h = r.heh_.d[i].idx_; if (!(h >= 0 && (unsigned long)h < 2 * m.edges_.size && HEFROM(&m, h) == r.vh_.d[i].idx_ && HETO(&m, h) == r.vh_.d[(i + 1) % 3].idx_ && spec_he_in_hf(&m, lhf, h))) tre = 0; }',
                A('tre', 'its_halfedges_join_consecutive_vertices_and_lie_on_the_labelled_halfface (the cells, or for outer labels the opposite one)', n),
                A('!inner || r.hfh_.idx_ == t.hfh_.d[miss].idx_', 'for_an_inner_label_it_carries_the_cells_halfface (the member is private; for outer labels it also holds the inner halfface, not asserted)', n),
                A('same_state(&o, &m) && TopologyKernel__seq(&o, &m)', 'the_mesh_is_left_unchanged (C20)', n), A('ovm_exc == 0', 'no_exception', n)]
        mh = MeshHarness(args=args, call=call, post='\n'.join(post), op='none', pre=pre, snap='  witness(&o, c, k, j, li);\n  COVER(1, "reachable");')
        Q = 'OpenVolumeMesh::TetTopology::'
        obs.append(Ob(id='C15.' + n, props=['C15', 'C20'], quick_for=['C15'] if sh == 'tet' else [], tu='tethex', cfg='kernel', tier='B',
                      roots=[(Q + 'TetTopology', 'OpenVolumeMesh::CH, OpenVolumeMesh::HFH, OpenVolumeMesh::VH'), Q + 'triangle_topology'] + ROOTS_BUILD, harness=mh,
                      includes=['wf.h', 'view.h', 'add_spec.h', 'query_spec.h', 'circ_spec.h', 'shapes.h'], copies=[TK], defines=dict(DEFS), unwind=30, covers=1, timeout=2400,
                      inits={'tk_init': TK}, adaptive_unwind=True, unwind_start=8, prebuild_shape=SHAPES[sh], preamble_after=HELP + tab,
                      bounds=dict(shape=sh, arguments='cell, which of its halffaces is ABC, start vertex (or none), and the label: symbolic'),
                      note='TetTopology(mesh, cell, halfface, vertex) and triangle_topology(label) on the constructive shape "%s", all arguments symbolic; label table generated from the enumerator names' % sh))
    return obs
