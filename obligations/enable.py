"""C12 / C01: enable_{vertex,edge,face}_bottom_up_incidences on symbolic WF states: enabling a kind yields exactly the
incidences WF prescribes for the current definitions (= what they would have been had the kind never been disabled),
disabling empties the container; nothing else changes. Every combination of the other two kinds."""
from run import Ob
from obligations._mesh import MeshHarness, caps as mcaps
from obligations.delete import REORDER_STUB
TK = 'OpenVolumeMesh::TopologyKernel'
def A(cond, name, n): return '  __CPROVER_assert(%s, "C12.%s.%s");' % (cond, n, name)
def UW(d): return 2 * max(d['LV'], d['LE'], d['LF'], d['LC'], d['LFV'], d['LCV'], d['LOUT'], d['LINC']) + 2

DEFS_SAME = ('o.n_vertices_ == m.n_vertices_ && same_counters(&o, &m) && map_edges(&o, &m, RHO_NONE, RHO_NONE, 0, -1, 0) && map_faces(&o, &m, RHO_NONE, RHO_NONE, 0, -1, 0) && map_cells(&o, &m, RHO_NONE, RHO_NONE, 0, -1, 0)'
             ' && map_bools(&o.vertex_deleted_, &m.vertex_deleted_, RHO_NONE, -1, LV, 0) && map_bools(&o.edge_deleted_, &m.edge_deleted_, RHO_NONE, -1, LE, 0) && map_bools(&o.face_deleted_, &m.face_deleted_, RHO_NONE, -1, LF, 0) && map_bools(&o.cell_deleted_, &m.cell_deleted_, RHO_NONE, -1, LC, 0)'
             ' && map_ints(&o.ghost_v, &m.ghost_v, RHO_NONE, 0, -1, LV, 0) && map_ints(&o.ghost_e, &m.ghost_e, RHO_NONE, 0, -1, LE, 0) && map_ints(&o.ghost_he, &m.ghost_he, RHO_NONE, 0, -1, 2 * LE, 0) && map_ints(&o.ghost_f, &m.ghost_f, RHO_NONE, 0, -1, LF, 0) && map_ints(&o.ghost_hf, &m.ghost_hf, RHO_NONE, 0, -1, 2 * LF, 0) && map_ints(&o.ghost_c, &m.ghost_c, RHO_NONE, 0, -1, LC, 0)')
KINDS = {'v': dict(fn='enable_vertex_bottom_up_incidences', flag='v_bottom_up_', others='m.e_bottom_up_ == o.e_bottom_up_ && m.f_bottom_up_ == o.f_bottom_up_ && map_ecache(&o, &m, RHO_NONE, RHO_NONE, -1, 0) && map_fcache(&o, &m, RHO_NONE, RHO_NONE, -1, 0)', op='enable_v',
                   caps=dict(v=2, e=2, f=1, c=0, fv=2, cv=1, out=4, inc=2)),
         'e': dict(fn='enable_edge_bottom_up_incidences', flag='e_bottom_up_', others='m.v_bottom_up_ == o.v_bottom_up_ && m.f_bottom_up_ == o.f_bottom_up_ && map_vcache(&o, &m, RHO_NONE, RHO_NONE, -1, 0) && map_fcache(&o, &m, RHO_NONE, RHO_NONE, -1, 0)', op='enable_e',
                   caps=dict(v=1, e=2, f=2, c=1, fv=2, cv=2, out=2, inc=4)),
         'f': dict(fn='enable_face_bottom_up_incidences', flag='f_bottom_up_', others='m.v_bottom_up_ == o.v_bottom_up_ && m.e_bottom_up_ == o.e_bottom_up_ && map_vcache(&o, &m, RHO_NONE, RHO_NONE, -1, 0)', op='enable_f',
                   caps=dict(v=1, e=2, f=2, c=2, fv=2, cv=2, out=2, inc=2))}

def obligations():
    obs = []
    for k, K in KINDS.items():
        rest = [x for x in 'vef' if x != k]
        # the other kinds the function looks at: edge<->face interplay through reorder; vertex is independent
        combos = [''] if k == 'v' else ['', rest[-1] if k == 'e' else 'e']
        for other in combos:
            for start, target in ((0, 1), (1, 0), (1, 1)):
                on0 = other + (k if start else '')
                n = '%s.from_%s.to_%d.others_%s' % (K['fn'], 'on' if start else 'off', target, other or 'none')
                d = mcaps(**K['caps'])
                d.update(CFG_V=int('v' in on0), CFG_E=int('e' in on0), CFG_F=int('f' in on0), CFG_DEFERRED=1, CFG_FAST=1)
                post = [A('ovm_exc == 0', 'no_exception', n),
                        A('m.%s == %d' % (K['flag'], target), 'flag_set_as_requested', n),
                        A('wf(&m)', 'incidences_are_exactly_what_the_definitions_prescribe (enabled) / container empty (disabled)', n),
                        A(DEFS_SAME, 'definitions_flags_props_unchanged', n),
                        A(K['others'], 'other_incidence_kinds_untouched', n)]
                if k != 'e' and not (k == 'f' and 'e' in other):
                    post.append(A('map_ecache(&o, &m, RHO_NONE, RHO_NONE, -1, 0)', 'edge_incidences_untouched', n) if k != 'e' else '')
                if start == target:
                    post.append(A('same_state(&o, &m) || %s' % ('1' if (k == 'f' and 'e' in other) else '0'), 'no_op_when_already_in_that_state', n))
                mh = MeshHarness(args='', pre_assume='  __CPROVER_assume(spec_cells_disjoint(&m));',
                                 snap='  witness(&o, %d, 0, 0, 0);\n  COVER(1, "reachable");\n  COVER(m.edges_.size > 0 && m.faces_.size > 0, "non-trivial mesh");' % target,
                                 call='  TopologyKernel__%s(&m, %d);' % (K['fn'], target), post='\n'.join(p for p in post if p), op=K['op'])
                # args[0] must carry the target for the native replayer
                mh.args = '  int tgt = %d; (void)tgt;' % target
                obs.append(Ob(id='C12.' + n, props=['C12', 'C01'], tu='kernel', tier='B', roots=[TK + '::' + K['fn']], harness=mh, stubs=REORDER_STUB,
                              includes=['wf.h', 'view.h'], copies=[TK], defines=d, unwind=UW(d), covers=2, timeout=900,
                              bounds=dict(zip(('vertices', 'edges', 'faces', 'cells', 'face_valence', 'cell_valence', 'outgoing_list', 'incident_list'), (K['caps'][x] for x in ('v', 'e', 'f', 'c', 'fv', 'cv', 'out', 'inc')))),
                              note='%s(%s) from a state with this kind %s; other kinds enabled: %s' % (K['fn'], 'true' if target else 'false', 'on' if start else 'off', other or 'none')))
    return obs
