"""C15 (tetrahedral kernel), part 1.
 tier U: the valence guards of the add_face / add_cell overrides (base-class add_* replaced by a recording stub).
 tier B: get_cell_vertices x4, halfface_opposite_vertex, vertex_opposite_halfface, tv_iter on the constructive
         tetrahedral shapes (tet, twotets) built through the real construction code, arguments symbolic."""
from run import Ob
from obligations._mesh import MeshHarness
from obligations.query import SHAPES, DEFS, ROOTS_BUILD, rng, NV, NE, NF, NC, TK
TET = 'OpenVolumeMesh::TetrahedralMeshTopologyKernel'
P = 'TetrahedralMeshTopologyKernel__'
M = '(struct TetrahedralMeshTopologyKernel *)&m'
def A(cond, name, n): return '  __CPROVER_assert(%s, "C15.%s.%s");' % (cond, n, name)

# helper C text: apex and membership over the brute-force specs of query_spec.h / circ_spec.h
HELP = '''
static int spec_apex(const TK *m, int c, int hf) { int r = -1; for (int v = 0; v < LV; v++) if ((unsigned long)v < m->n_vertices_ && spec_vertex_in_cell(m, c, v) && !spec_vertex_in_hf(m, hf, v)) r = v; return r; }
static int spec_napex(const TK *m, int c, int hf) { int r = 0; for (int v = 0; v < LV; v++) if ((unsigned long)v < m->n_vertices_ && spec_vertex_in_cell(m, c, v) && !spec_vertex_in_hf(m, hf, v)) r++; return r; }
static _Bool even_perm4(const int *a, const int *b) { /* b is an even permutation of a (4 distinct entries) */
  int p[4]; for (int i = 0; i < 4; i++) { p[i] = -1; for (int j = 0; j < 4; j++) if (b[i] == a[j]) p[i] = j; if (p[i] < 0) return 0; }
  int inv = 0; for (int i = 0; i < 4; i++) for (int j = 0; j < 4; j++) if (i < j && p[i] > p[j]) inv++;
  for (int i = 0; i < 4; i++) for (int j = 0; j < 4; j++) if (i < j && p[i] == p[j]) return 0;
  return inv % 2 == 0; }
'''
def GET(call, var='r'):
    return '  struct vec_VH %s = %s;\n  rn = (int)%s.size; for (int i = 0; i < 4; i++) if (i < rn) rv[i] = %s.data[i].idx_;' % (var, call, var, var)

Q = {}
Q['get_cell_vertices_hf'] = dict(
    args='  int hf = ARG(0);\n  __CPROVER_assume(%s);' % rng('hf', '2 * ' + NF),
    call='  struct HFH h; h.idx_ = hf;\n' + GET(P + 'get_cell_vertices__HFH_c(%s, h)' % M),
    post=lambda n: ['  int c = ICELL(&m, hf);',
        A('c >= 0 || rn == 0', 'boundary halfface yields the empty list', n),
        A('c < 0 || rn == 4', 'four vertices', n),
        A('c < 0 || (rv[0] == spec_hf_vertex(&m, hf, 0) && rv[1] == spec_hf_vertex(&m, hf, 1) && rv[2] == spec_hf_vertex(&m, hf, 2))', 'first three are the halfface vertices in its cyclic order', n),
        A('c < 0 || (spec_napex(&m, c, hf) == 1 && rv[3] == spec_apex(&m, c, hf))', 'fourth is the apex (the one cell vertex not on the halfface)', n)])
Q['get_cell_vertices_c'] = dict(
    args='  int c = ARG(0);\n  __CPROVER_assume(%s);' % rng('c', NC),
    call='  struct CH h; h.idx_ = c;\n' + GET(P + 'get_cell_vertices__CH_c(%s, h)' % M),
    post=lambda n: ['  int hf = CHF(&m, c, 0);',
        A('rn == 4 && rv[0] == spec_hf_vertex(&m, hf, 0) && rv[1] == spec_hf_vertex(&m, hf, 1) && rv[2] == spec_hf_vertex(&m, hf, 2) && rv[3] == spec_apex(&m, c, hf)', 'first halfface in cyclic order, then the apex', n)])
Q['get_cell_vertices_c_v'] = dict(
    args='  int c = ARG(0), v = ARG(1);\n  __CPROVER_assume(%s && %s);' % (rng('c', NC), rng('v', NV)),
    call='  struct CH h; h.idx_ = c; struct VH hv; hv.idx_ = v;\n' + GET(P + 'get_cell_vertices__CH_VH_c(%s, h, hv)' % M),
    post=lambda n: ['  int hf = CHF(&m, c, 0); int base[4] = {spec_hf_vertex(&m, hf, 0), spec_hf_vertex(&m, hf, 1), spec_hf_vertex(&m, hf, 2), spec_apex(&m, c, hf)};',
        '  _Bool incell = spec_vertex_in_cell(&m, c, v); _Bool onhf = spec_vertex_in_hf(&m, hf, v);',
        A('rn == 4 && even_perm4(base, rv)', 'an orientation-preserving (even) rearrangement of the cell vertices', n),
        A('!incell || rv[0] == v', 'starts at the requested vertex', n),
        A('!onhf || (rv[3] == base[3] && ((rv[0] == base[0] && rv[1] == base[1] && rv[2] == base[2]) || (rv[0] == base[1] && rv[1] == base[2] && rv[2] == base[0]) || (rv[0] == base[2] && rv[1] == base[0] && rv[2] == base[1])))', 'requested vertex on the first halfface: its cyclic order rotated, then the apex', n),
        A('incell || (rv[0] == base[0] && rv[1] == base[1] && rv[2] == base[2] && rv[3] == base[3])', 'a vertex outside the cell leaves the default arrangement', n)])
Q['get_cell_vertices_hf_he'] = dict(
    args='  int hf = ARG(0), he = ARG(1);\n  __CPROVER_assume(%s && %s);\n' % (rng('hf', '2 * ' + NF), rng('he', '2 * ' + NE)),
    pre_assume='  __CPROVER_assume(ICELL(&m, hf) >= 0 && spec_he_in_hf(&m, hf, he));',
    call='  struct HFH h; h.idx_ = hf; struct HEH e; e.idx_ = he;\n' + GET(P + 'get_cell_vertices__HFH_HEH_c(%s, h, e)' % M),
    post=lambda n: ['  int c = ICELL(&m, hf);',
        A('rn == 4 && rv[0] == HEFROM(&m, he) && rv[1] == HETO(&m, he)', 'starts with the halfedge (from, to)', n),
        A('spec_vertex_in_hf(&m, hf, rv[2]) && rv[2] != rv[0] && rv[2] != rv[1]', 'third is the remaining halfface vertex', n),
        A('rv[3] == spec_apex(&m, c, hf)', 'fourth is the apex', n)])
Q['opposite'] = dict(
    args='  int hf = ARG(0);\n  __CPROVER_assume(%s);' % rng('hf', '2 * ' + NF),
    call='  struct HFH h; h.idx_ = hf; ret = %shalfface_opposite_vertex(%s, h).idx_;' % (P, M),
    post=lambda n: ['  int c = ICELL(&m, hf);',
        A('c >= 0 || ret == -1', 'boundary halfface has no opposite vertex', n),
        A('c < 0 || ret == spec_apex(&m, c, hf)', 'opposite vertex is the apex of the incident cell', n),
        '  if (c >= 0) { struct CH hc; hc.idx_ = c; struct VH hv; hv.idx_ = ret; int back = %svertex_opposite_halfface(%s, hc, hv).idx_;' % (P, M),
        '  ' + A('back == hf', 'vertex_opposite_halfface inverts halfface_opposite_vertex', n) + ' }'])
Q['opposite_hf'] = dict(
    args='  int c = ARG(0), v = ARG(1);\n  __CPROVER_assume(%s && %s);' % (rng('c', NC), rng('v', NV)),
    call='  struct CH hc; hc.idx_ = c; struct VH hv; hv.idx_ = v; ret = %svertex_opposite_halfface(%s, hc, hv).idx_;' % (P, M),
    post=lambda n: ['  _Bool incell = spec_vertex_in_cell(&m, c, v);',
        A('incell || 1', 'n/a', n),
        A('!incell || (ret >= 0 && spec_cell_lists(&m, c, ret) && !spec_vertex_in_hf(&m, ret, v))', 'a halfface of the cell that does not touch the vertex', n),
        '  if (incell && ret >= 0) { struct HFH h; h.idx_ = ret; int back = %shalfface_opposite_vertex(%s, h).idx_;' % (P, M),
        '  ' + A('back == v', 'halfface_opposite_vertex inverts vertex_opposite_halfface', n) + ' }'])
Q['tv_iter'] = dict(
    args='  int c = ARG(0), laps = ARG(1);\n  __CPROVER_assume(%s && 1 <= laps && laps <= 2);' % rng('c', NC),
    call='''  int seq[10]; int cnt = 0; _Bool back_ok = 1;
  { struct CH hc; hc.idx_ = c;
    @TYPE(tv_iter)@ it = %(P)stv_iter(%(M)s, hc, laps);
    for (int s = 0; s < 10; s++) if (it.valid_) { seq[cnt] = it.cur_handle_.idx_; cnt++; @TYPE(tv_iter)@ before = it; @INC(tv_iter)@(&it);
      if (it.valid_) { @TYPE(tv_iter)@ b2 = it; @DEC(tv_iter)@(&b2); if (!(b2.cur_handle_.idx_ == before.cur_handle_.idx_ && b2.lap_ == before.lap_ && b2.valid_ == before.valid_)) back_ok = 0; } }
    ret = it.valid_; }
''' % dict(P=P, M=M) + '  struct CH hc2; hc2.idx_ = c;\n' + GET(P + 'get_cell_vertices__CH_c(%s, hc2)' % M),
    post=lambda n: [A('cnt == 4 * laps && ret == 0', 'four vertices per lap, then invalid', n),
        A('rn == 4 && (g_k < 0 || g_k >= cnt || seq[g_k] == rv[g_k % 4])', 'agrees with get_cell_vertices', n),
        A('back_ok', 'stepping backward undoes stepping forward', n)])

GUARD = '''
int base_calls; int base_n; int base_first; _Bool base_flag;
void harness(void) {
  struct TetrahedralMeshTopologyKernel m;
  unsigned long nf = nondet_ulong(); __CPROVER_assume(nf >= 1 && nf <= 8);
  m.faces_.data = (struct OpenVolumeMeshFace *)malloc(sizeof(struct OpenVolumeMeshFace) * 8); m.faces_.size = nf; m.faces_.cap = 8;
  for (int f = 0; f < 8; f++) { unsigned long k = nondet_ulong(); __CPROVER_assume(k <= 5); m.faces_.data[f].halfedges_.size = k; }
  unsigned long n = nondet_ulong(); __CPROVER_assume(n <= 6);
  _Bool check = nondet_bool();
%(body)s
}
'''
GUARD_FACE = GUARD % dict(body='''  struct vec_HEH l; vec_HEH_init(&l); for (unsigned long i = 0; i < 6; i++) if (i < n) { struct HEH h; h.idx_ = nondet_int(); vec_HEH_push_back(&l, h); }
  int first = n ? l.data[0].idx_ : -7;
  base_calls = 0;
  struct FH r = TetrahedralMeshTopologyKernel__add_face__std_vector_HEH_bool(&m, l, check);
  __CPROVER_assert(n == 3 || (r.idx_ == -1 && base_calls == 0), "C15.add_face.a_face_that_is_not_a_triangle_is_rejected_without_touching_the_mesh");
  __CPROVER_assert(n != 3 || (base_calls == 1 && base_n == 3 && base_first == first && base_flag == check && r.idx_ == 77), "C15.add_face.a_triangle_is_handed_unchanged_to_the_general_add_face");''')
GUARD_FACE_V = GUARD % dict(body='''  struct vec_VH l; vec_VH_init(&l); for (unsigned long i = 0; i < 6; i++) if (i < n) { struct VH h; h.idx_ = nondet_int(); vec_VH_push_back(&l, h); }
  int first = n ? l.data[0].idx_ : -7;
  base_calls = 0;
  struct FH r = TetrahedralMeshTopologyKernel__add_face__std_vector_VH__r(&m, &l);
  __CPROVER_assert(n == 3 || (r.idx_ == -1 && base_calls == 0), "C15.add_face_vertices.a_face_that_is_not_a_triangle_is_rejected_without_touching_the_mesh");
  __CPROVER_assert(n != 3 || (base_calls == 1 && base_n == 3 && base_first == first && r.idx_ == 77), "C15.add_face_vertices.a_triangle_is_handed_unchanged_to_the_general_add_face");''')
GUARD_CELL = GUARD % dict(body='''  struct vec_HFH l; vec_HFH_init(&l); _Bool all3 = 1;
  for (unsigned long i = 0; i < 6; i++) if (i < n) { struct HFH h; h.idx_ = nondet_int(); __CPROVER_assume(h.idx_ >= 0 && (unsigned long)h.idx_ < 2 * nf); vec_HFH_push_back(&l, h); if (m.faces_.data[h.idx_ >> 1].halfedges_.size != 3) all3 = 0; }
  int first = n ? l.data[0].idx_ : -7;
  base_calls = 0;
  struct CH r = TetrahedralMeshTopologyKernel__add_cell__std_vector_HFH_bool(&m, l, check);
  __CPROVER_assert((n == 4 && all3) || (r.idx_ == -1 && base_calls == 0), "C15.add_cell.a_cell_without_exactly_four_triangles_is_rejected_without_touching_the_mesh");
  __CPROVER_assert(!(n == 4 && all3) || (base_calls == 1 && base_n == 4 && base_first == first && base_flag == check && r.idx_ == 77), "C15.add_cell.four_triangles_are_handed_unchanged_to_the_general_add_cell");''')
TKQ = 'OpenVolumeMesh::TopologyKernel::'
GUARD_STUBS = {
    TKQ + 'add_face__std_vector_HEH_bool': '{ base_calls++; base_n = (int)_halfedges.size; base_first = _halfedges.size ? _halfedges.data[0].idx_ : -7; base_flag = _topologyCheck; struct FH r; r.idx_ = 77; return r; }',
    TKQ + 'add_face__std_vector_VH__r': '{ base_calls++; base_n = (int)_vertices->size; base_first = _vertices->size ? _vertices->data[0].idx_ : -7; struct FH r; r.idx_ = 77; return r; }',
    TKQ + 'add_cell': '{ base_calls++; base_n = (int)_halffaces.size; base_first = _halffaces.size ? _halffaces.data[0].idx_ : -7; base_flag = _topologyCheck; struct CH r; r.idx_ = 77; return r; }',
}
GUARD_PRE = 'extern int base_calls; extern int base_n; extern int base_first; extern _Bool base_flag;\n'

def obligations():
    obs = []
    for qn, q in Q.items():
        for sh in ('tet', 'twotets'):
            n = '%s.%s' % (qn, sh)
            pre = '  TK m; { static const int W0[] = {SHAPE_W}; int aa[4]; unwitness(W0, &m, aa); }'
            post = q['post'](n) + [A('same_state(&o, &m) && TopologyKernel__seq(&o, &m)', 'query leaves the whole mesh state unchanged (write frame: C20)', n), A('ovm_exc == 0', 'no_exception', n)]
            import re as _re
            w = ['0', '0', '0', '0']
            for mm in _re.finditer(r'(\w+) = ARG\((\d)\)', q['args']): w[int(mm.group(2))] = mm.group(1)
            mh = MeshHarness(args=q['args'], call=q['call'], post='\n'.join(post), op='none', pre=pre, pre_assume=q.get('pre_assume', ''),
                             snap='  witness(&o, %s);\n  COVER(1, "reachable");' % ', '.join(w))
            roots = [TET + '::' + f for f in ('halfface_opposite_vertex', 'vertex_opposite_halfface')] + \
                    [(TET + '::get_cell_vertices', s) for s in ('(OpenVolumeMesh::CellHandle)', '(OpenVolumeMesh::CellHandle, OpenVolumeMesh::VertexHandle)', '(OpenVolumeMesh::HalfFaceHandle)', '(OpenVolumeMesh::HalfFaceHandle, OpenVolumeMesh::HalfEdgeHandle)')]
            obs.append(Ob(id='C15.' + n, props=['C15', 'C20'], quick_for=['C15'] if sh == 'tet' else [], tu='tethex', cfg='tet', tier='B', roots=roots + ROOTS_BUILD, harness=mh,
                          includes=['wf.h', 'view.h', 'add_spec.h', 'query_spec.h', 'circ_spec.h', 'shapes.h'], copies=[TK], defines=dict(DEFS), unwind=20, covers=1, timeout=1200,
                          inits={'tk_init': TK}, adaptive_unwind=True, unwind_start=7, prebuild_shape=SHAPES[sh], preamble_after=HELP, circ_class='TetrahedralMeshTopologyKernel',
                          bounds=dict(shape=sh, arguments='all handles of the shape (symbolic)'),
                          note='%s on the constructive shape "%s" (built through the real add_* code); arguments symbolic over the full handle ranges' % (qn, sh)))
    for nm, h, root in (('add_face', GUARD_FACE, (TET + '::add_face', 'std::vector<HalfEdgeHandle>, bool')), ('add_face_vertices', GUARD_FACE_V, (TET + '::add_face', 'const std::vector<VertexHandle> &')),
                        ('add_cell', GUARD_CELL, (TET + '::add_cell', 'std::vector<HalfFaceHandle>, bool'))):
        obs.append(Ob(id='C15.guard.' + nm, props=['C15'], tu='tethex', cfg='tet', tier='U', roots=[root], harness=h, stubs=GUARD_STUBS, preamble=GUARD_PRE, unwind=10, adaptive_unwind=False,
                      defines=dict(VSTD_CAP_DEFAULT=8),
                      note='valence guard of the tetrahedral %s override: lists of every length 0..6 (face valences 0..5 arbitrary); the general add_* is a recording stub, so the proof shows exactly when and with what it is called' % nm))
    return obs

# ---------------------------------------------------------------------------------------------------------------
# C15 part 2: collapse_edge on the two-tetrahedra shape, halfedge symbolic, per (deferred, fast) mode
COLLAPSE_HELP = HELP + '''
static void tuple_ids(const TK *m, int c, int *out) { int hf = CHF(m, c, 0); out[0] = m->ghost_v.data[spec_hf_vertex(m, hf, 0)]; out[1] = m->ghost_v.data[spec_hf_vertex(m, hf, 1)]; out[2] = m->ghost_v.data[spec_hf_vertex(m, hf, 2)]; int ap = spec_apex(m, c, hf); out[3] = ap >= 0 ? m->ghost_v.data[ap] : -1; }
'''
def collapse_obligations(shape='twotets', nhe=18):
    obs = []
    for dfr in (0, 1):
        for fast in (0, 1):
            n = 'collapse_edge.%s.deferred%d_fast%d' % (shape, dfr, fast)
            pre = '  TK m; { static const int W0[] = {SHAPE_W}; int aa[4]; unwitness(W0, &m, aa); }\n  m.deferred_deletion_ = %d; m.fast_deletion_ = %d;\n  for (int i = 0; i < 5; i++) m.ghost_v.data[i] = 100 + i;' % (dfr, fast)
            args = '  int he = ENUM_HE;'
            call = '  struct HEH hh; hh.idx_ = he; ret = %scollapse_edge(%s, hh).idx_;' % (P, M)
            post = ['  int a = HEFROM(&o, he), b = HETO(&o, he); int ida = 100 + a, idb = 100 + b;',
                    A('ovm_exc == 0 && wf(&m)', 'mesh_stays_well_formed', n),
                    A('m.deferred_deletion_ == %d && m.fast_deletion_ == %d' % (dfr, fast), 'deletion_modes_restored', n),
                    A('ret >= 0 && (unsigned long)ret < m.n_vertices_ && !VDEL(&m, ret) && m.ghost_v.data[ret] == idb', 'returned_handle_designates_b_after_the_collapse', n),
                    '  _Bool a_gone = 1; for (int v = 0; v < 5; v++) if ((unsigned long)v < m.n_vertices_ && !VDEL(&m, v) && m.ghost_v.data[v] == ida) a_gone = 0;',
                    A('a_gone', 'a_is_no_longer_a_live_vertex', n),
                    '  int nexp = 0, nlive = 0; _Bool all_found = 1;',
                    '  for (int c = 0; c < 2; c++) if ((unsigned long)c < o.cells_.size && !CDEL(&o, c) && !(spec_vertex_in_cell(&o, c, a) && spec_vertex_in_cell(&o, c, b))) {',
                    '    int e[4]; tuple_ids(&o, c, e); for (int i = 0; i < 4; i++) if (e[i] == ida) e[i] = idb; nexp++;',
                    '    _Bool found = 0; for (int d = 0; d < 4; d++) if ((unsigned long)d < m.cells_.size && !CDEL(&m, d)) { int t[4]; tuple_ids(&m, d, t); if (even_perm4(e, t)) found = 1; }',
                    '    if (!found) all_found = 0; }',
                    '  for (int d = 0; d < 4; d++) if ((unsigned long)d < m.cells_.size && !CDEL(&m, d)) nlive++;',
                    A('nlive == nexp && all_found', 'live_cells_are_exactly_the_former_cells_without_both_endpoints_with_a_replaced_by_b_and_orientation_preserved', n),
                    A('%s' % ('m.n_deleted_vertices_ + m.n_deleted_edges_ + m.n_deleted_faces_ + m.n_deleted_cells_ == 0' if not dfr else '1'), 'nothing_left_pending_when_deferred_deletion_was_off', n)]
            mh = MeshHarness(args=args, call=call, post='\n'.join(post), op='none', pre=pre, snap='  witness(&o, he, 0, 0, 0);\n  COVER(1, "reachable");')
            d = dict(DEFS); d.update(LC=4, PC=4, LE=12, PE=12, LF=10, PF=10, VSTD_CAP_DEFAULT=26)
            obs.append(Ob(id='C15.' + n, props=['C15', 'C03'], quick_for=[], tu='tethex', cfg='tet', tier='B', roots=[TET + '::collapse_edge'] + ROOTS_BUILD, harness=mh,
                          includes=['wf.h', 'view.h', 'add_spec.h', 'query_spec.h', 'circ_spec.h', 'shapes.h'], copies=[TK], defines=d, unwind=30, covers=1, timeout=6000, mem_gb=24,
                          inits={'tk_init': TK}, adaptive_unwind=True, unwind_start=10, prebuild_shape=SHAPES[shape], preamble_after=COLLAPSE_HELP, enum=[('ENUM_HE', range(nhe))],
                          bounds=dict(shape=shape, halfedge='all %d halfedges of the shape, one CBMC run each' % nhe, deferred=dfr, fast=fast),
                          note='collapse_edge on two tetrahedra glued on a face (every edge satisfies the link condition), any halfedge, deferred deletion %s, fast deletion %s: resulting cells, surviving handle (tracked by a ghost vertex property), well-formedness' % ('on' if dfr else 'off', 'on' if fast else 'off')))
    return obs
_base_tet = obligations
def obligations():
    # collapse_edge: registered on the single tetrahedron (12 halfedges x 4 modes, about 90 s per enumerated instance).
    # On the two-tets shape one concrete instance exceeds 24 GB / 20 minutes in CBMC (circulators, set operations, four
    # cascaded deletions and a garbage collection); that variant stays unregistered - the clause "a replaced by b in the
    # surviving cells" is therefore not decided (see DESIGN S6).
    return _base_tet() + collapse_obligations('tet', 12)
