"""C02 / C01 / C03: TopologyKernel::clear on any well-formed state within the caps, with and without clearing the
properties: afterwards there is no entity, no deletion flag, no pending-deletion count, every cache is empty, the modes
are unchanged, the state is well-formed, and (clear(false)) every property has zero elements. Together with
"add_* appends exactly one slot to every per-entity array" (C11) this is what keeps flags of a later mesh from being
inherited from the cleared one."""
from run import Ob
from obligations._mesh import MeshHarness, caps as mcaps
TK = 'OpenVolumeMesh::TopologyKernel'
def A(cond, name, n): return '  __CPROVER_assert(%s, "C02.%s.%s");' % (cond, n, name)

def obligations():
    obs = []
    for keep in (0, 1):
        n = 'clear.%s' % ('keep_props' if keep else 'clear_props')
        d = mcaps(v=2, e=2, f=2, c=2, fv=2, cv=2, out=2, inc=2)
        d.update(CFG_V=1, CFG_E=1, CFG_F=1, CFG_DEFERRED=1, CFG_FAST=1)
        post = [A('ovm_exc == 0 && wf(&m)', 'no_exception_and_wf', n), A('same_modes(&o, &m)', 'modes_unchanged', n),
                A('m.n_vertices_ == 0 && m.edges_.size == 0 && m.faces_.size == 0 && m.cells_.size == 0', 'no_entity_left', n),
                A('m.vertex_deleted_.size == 0 && m.edge_deleted_.size == 0 && m.face_deleted_.size == 0 && m.cell_deleted_.size == 0', 'no_deletion_flag_left (a later entity must not inherit one)', n),
                A('m.n_deleted_vertices_ == 0 && m.n_deleted_edges_ == 0 && m.n_deleted_faces_ == 0 && m.n_deleted_cells_ == 0', 'nothing_pending', n),
                A('m.outgoing_hes_per_vertex_.size == 0 && m.incident_hfs_per_he_.size == 0 && m.incident_cell_per_hf_.size == 0', 'caches_empty', n)]
        if keep:
            post.append(A('m.ghost_v.size == 0 && m.ghost_e.size == 0 && m.ghost_he.size == 0 && m.ghost_f.size == 0 && m.ghost_hf.size == 0 && m.ghost_c.size == 0', 'kept_properties_have_one_element_per_entity_slot_ie_none (C03)', n))
        mh = MeshHarness(args='  int h = 0;', snap='  witness(&o, 0, 0, 0, 0);\n  COVER(m.cells_.size > 0 && CDEL(&m, 0), "a pending cell deletion before the clear");\n  COVER(m.n_vertices_ > 0, "a non-empty mesh");',
                         call='  TopologyKernel__clear(&m, %d);' % (0 if keep else 1), post='\n'.join(post), op='none')
        obs.append(Ob(id='C02.' + n, props=['C02', 'C01', 'C03'], quick_for=['C02'], tu='kernel', tier='B', roots=[TK + '::clear'], harness=mh, includes=['wf.h', 'view.h'], copies=[TK], defines=d,
                      unwind=8, covers=2, timeout=900, bounds=dict(vertices=2, edges=2, faces=2, cells=2),
                      note='clear(%s) on any WF state within the caps' % ('false' if keep else 'true')))
    return obs
