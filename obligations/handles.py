"""C08 handle algebra (tier U, loop-free, all 2^32 index values) and the C02 correction helpers (tier U, loop contract).
Per-function contracts are enforced with DFCC; the algebraic laws are lemmas over the real (inlined) bodies."""
from run import Ob
TK = 'OpenVolumeMesh::TopologyKernel'

def member_contract(cn, ens, req='self->idx_ >= 0', extra_req=''):
    return '''function %s
  requires __CPROVER_is_fresh(self, sizeof(*self))
  requires %s
%s  assigns
  ensures %s
end
''' % (cn, req, extra_req, ens)

MEMBERS = [
    # (qualified name, C name, struct of self, ensures)
    ('OpenVolumeMesh::HEH::opposite_handle', 'HEH__opposite_handle', 'HEH', '__CPROVER_return_value.idx_ == (self->idx_ ^ 1)', ''),
    ('OpenVolumeMesh::HFH::opposite_handle', 'HFH__opposite_handle', 'HFH', '__CPROVER_return_value.idx_ == (self->idx_ ^ 1)', ''),
    ('OpenVolumeMesh::HEH::edge_handle', 'HEH__edge_handle', 'HEH', '__CPROVER_return_value.idx_ == (self->idx_ >> 1)', ''),
    ('OpenVolumeMesh::HFH::face_handle', 'HFH__face_handle', 'HFH', '__CPROVER_return_value.idx_ == (self->idx_ >> 1)', ''),
    ('OpenVolumeMesh::EH::halfedge_handle', 'EH__halfedge_handle', 'EH', '__CPROVER_return_value.idx_ == 2 * self->idx_ + subidx', '  requires 0 <= subidx && subidx <= 1 && self->idx_ < (1 << 30)\n'),
    ('OpenVolumeMesh::FH::halfface_handle', 'FH__halfface_handle', 'FH', '__CPROVER_return_value.idx_ == 2 * self->idx_ + subidx', '  requires 0 <= subidx && subidx <= 1 && self->idx_ < (1 << 30)\n'),
    ('OpenVolumeMesh::detail::SubHandleT<OpenVolumeMesh::HEH, OpenVolumeMesh::EH>::subidx', 'detail_SubHandleT_HEH_EH__subidx', 'detail_SubHandleT_HEH_EH', '__CPROVER_return_value == (self->idx_ & 1)', ''),
    ('OpenVolumeMesh::detail::SubHandleT<OpenVolumeMesh::HFH, OpenVolumeMesh::FH>::subidx', 'detail_SubHandleT_HFH_FH__subidx', 'detail_SubHandleT_HFH_FH', '__CPROVER_return_value == (self->idx_ & 1)', ''),
]
STATICS = [
    (TK + '::halfedge_handle', 'TopologyKernel__halfedge_handle', 'struct EH _h, unsigned char s', '_h, s', '_h.idx_ >= 0 && _h.idx_ < (1 << 30) && _subIdx < 2', '__CPROVER_return_value.idx_ == 2 * _h.idx_ + _subIdx'),
    (TK + '::halfface_handle', 'TopologyKernel__halfface_handle', 'struct FH _h, unsigned char s', '_h, s', '_h.idx_ >= 0 && _h.idx_ < (1 << 30) && _subIdx < 2', '__CPROVER_return_value.idx_ == 2 * _h.idx_ + _subIdx'),
    (TK + '::edge_handle', 'TopologyKernel__edge_handle', 'struct HEH _h', '_h', '_h.idx_ >= 0', '__CPROVER_return_value.idx_ == (_h.idx_ >> 1)'),
    (TK + '::face_handle', 'TopologyKernel__face_handle', 'struct HFH _h', '_h', '_h.idx_ >= 0', '__CPROVER_return_value.idx_ == (_h.idx_ >> 1)'),
    (TK + '::opposite_halfedge_handle', 'TopologyKernel__opposite_halfedge_handle', 'struct HEH _h', '_h', '_h.idx_ >= 0', '__CPROVER_return_value.idx_ == (_h.idx_ ^ 1)'),
    (TK + '::opposite_halfface_handle', 'TopologyKernel__opposite_halfface_handle', 'struct HFH _h', '_h', '_h.idx_ >= 0', '__CPROVER_return_value.idx_ == (_h.idx_ ^ 1)'),
]

LEMMAS = '''
void harness(void) {
  int i = nondet_int(); int e = nondet_int(); int s = nondet_int();
  __CPROVER_assume(i >= 0); __CPROVER_assume(0 <= e && e < (1 << 30)); __CPROVER_assume(s == 0 || s == 1);
  struct HEH h; h.idx_ = i; struct HFH g; g.idx_ = i; struct EH eh; eh.idx_ = e; struct FH fh; fh.idx_ = e;
  /* opposite twice is the identity; opposite keeps the edge/face and flips the sub-index */
  struct HEH ho = HEH__opposite_handle(&h); struct HEH hoo = HEH__opposite_handle(&ho);
  __CPROVER_assert(hoo.idx_ == i, "C08.lemma.halfedge_opposite_involution");
  __CPROVER_assert(ho.idx_ != i, "C08.lemma.halfedge_opposite_is_distinct");
  __CPROVER_assert(HEH__edge_handle(&ho).idx_ == HEH__edge_handle(&h).idx_, "C08.lemma.opposite_halfedge_same_edge");
  __CPROVER_assert(detail_SubHandleT_HEH_EH__subidx((struct detail_SubHandleT_HEH_EH *)&ho) == 1 - detail_SubHandleT_HEH_EH__subidx((struct detail_SubHandleT_HEH_EH *)&h), "C08.lemma.opposite_halfedge_flips_subidx");
  struct HFH go = HFH__opposite_handle(&g); struct HFH goo = HFH__opposite_handle(&go);
  __CPROVER_assert(goo.idx_ == i, "C08.lemma.halfface_opposite_involution");
  __CPROVER_assert(HFH__face_handle(&go).idx_ == HFH__face_handle(&g).idx_, "C08.lemma.opposite_halfface_same_face");
  __CPROVER_assert(detail_SubHandleT_HFH_FH__subidx((struct detail_SubHandleT_HFH_FH *)&go) == 1 - detail_SubHandleT_HFH_FH__subidx((struct detail_SubHandleT_HFH_FH *)&g), "C08.lemma.opposite_halfface_flips_subidx");
  /* edge <-> halfedge, face <-> halfface and sub-index are mutually inverse for every representable index */
  struct HEH he = EH__halfedge_handle(&eh, s);
  __CPROVER_assert(HEH__edge_handle(&he).idx_ == e, "C08.lemma.edge_of_halfedge_of_edge");
  __CPROVER_assert(detail_SubHandleT_HEH_EH__subidx((struct detail_SubHandleT_HEH_EH *)&he) == s, "C08.lemma.subidx_of_halfedge_of_edge");
  struct HFH hf = FH__halfface_handle(&fh, s);
  __CPROVER_assert(HFH__face_handle(&hf).idx_ == e, "C08.lemma.face_of_halfface_of_face");
  __CPROVER_assert(detail_SubHandleT_HFH_FH__subidx((struct detail_SubHandleT_HFH_FH *)&hf) == s, "C08.lemma.subidx_of_halfface_of_face");
  struct EH e2 = HEH__edge_handle(&h);
  struct HEH back = EH__halfedge_handle(&e2, detail_SubHandleT_HEH_EH__subidx((struct detail_SubHandleT_HEH_EH *)&h));
  __CPROVER_assert(back.idx_ == i, "C08.lemma.halfedge_of_edge_and_subidx_of_halfedge");
  struct FH f2 = HFH__face_handle(&g);
  struct HFH backf = FH__halfface_handle(&f2, detail_SubHandleT_HFH_FH__subidx((struct detail_SubHandleT_HFH_FH *)&g));
  __CPROVER_assert(backf.idx_ == i, "C08.lemma.halfface_of_face_and_subidx_of_halfface");
  /* the static kernel helpers agree with the handle members */
  __CPROVER_assert(TopologyKernel__halfedge_handle(eh, (unsigned char)s).idx_ == he.idx_, "C08.lemma.static_halfedge_handle_agrees");
  __CPROVER_assert(TopologyKernel__halfface_handle(fh, (unsigned char)s).idx_ == hf.idx_, "C08.lemma.static_halfface_handle_agrees");
  __CPROVER_assert(TopologyKernel__edge_handle(h).idx_ == e2.idx_, "C08.lemma.static_edge_handle_agrees");
  __CPROVER_assert(TopologyKernel__face_handle(g).idx_ == f2.idx_, "C08.lemma.static_face_handle_agrees");
  __CPROVER_assert(TopologyKernel__opposite_halfedge_handle(h).idx_ == ho.idx_, "C08.lemma.static_opposite_halfedge_agrees");
  __CPROVER_assert(TopologyKernel__opposite_halfface_handle(g).idx_ == go.idx_, "C08.lemma.static_opposite_halfface_agrees");
}
'''

def corr_spec(cls, H, step, vec):
    s = '''function %(c)s__correctValue
  requires __CPROVER_is_fresh(self, sizeof(*self)) && __CPROVER_is_fresh(_h, sizeof(*_h))
  requires self->thld_.idx_ >= -1
  assigns _h->idx_
  ensures _h->idx_ == (__CPROVER_old(_h->idx_) > self->thld_.idx_ ? __CPROVER_old(_h->idx_) - %(k)d : __CPROVER_old(_h->idx_))
end
''' % dict(c=cls, k=step)
    if vec:
        s += '''function %(c)s__correctVecValue loops=1
  requires __CPROVER_is_fresh(self, sizeof(*self)) && __CPROVER_is_fresh(_vec, sizeof(*_vec))
  requires 1 <= _vec->size && _vec->size <= 100000000UL && __CPROVER_is_fresh(_vec->data, _vec->size * sizeof(struct %(H)s))
  requires self->thld_.idx_ >= -1 && g_u < _vec->size
  assigns __CPROVER_object_upto(_vec->data, _vec->size * sizeof(struct %(H)s))
  ensures _vec->data[g_u].idx_ == (__CPROVER_old(_vec->data[g_u].idx_) > self->thld_.idx_ ? __CPROVER_old(_vec->data[g_u].idx_) - %(k)d : __CPROVER_old(_vec->data[g_u].idx_))
  ensures _vec->size == __CPROVER_old(_vec->size)
  loop 0:
    assigns __begin2.i, __CPROVER_object_upto(_vec->data, _vec->size * sizeof(struct %(H)s))
    invariant __begin2.v == _vec && __end2.v == _vec && __end2.i == _vec->size && __begin2.i <= _vec->size
    invariant (g_u < __begin2.i) ==> _vec->data[g_u].idx_ == (__CPROVER_loop_entry(_vec->data[g_u].idx_) > self->thld_.idx_ ? __CPROVER_loop_entry(_vec->data[g_u].idx_) - %(k)d : __CPROVER_loop_entry(_vec->data[g_u].idx_))
    invariant (g_u >= __begin2.i) ==> _vec->data[g_u].idx_ == __CPROVER_loop_entry(_vec->data[g_u].idx_)
    decreases _vec->size - __begin2.i
end
''' % dict(c=cls, k=step, H=H)
    return s

def obligations():
    obs = []
    for q, cn, st, ens, extra in MEMBERS:
        args = ', s' if 'subidx' in ens and 'return_value.idx_' in ens else ''
        decl = 'int s = nondet_int(); ' if args else ''
        obs.append(Ob(id='C08.' + cn, props=['C08', 'C20'], tu='kernel', tier='U', roots=[q], spec_text=member_contract(cn, ens, extra_req=extra), enforce=cn,
                      harness='void harness(void) { struct %s *p; %s%s(p%s); }' % (st, decl, cn, args),
                      note='member handle conversion against its bit formula for every non-negative index (no signed overflow below 2^30)'))
    for q, cn, params, call, req, ens in STATICS:
        spec = 'function %s\n  requires %s\n  assigns\n  ensures %s\nend\n' % (cn, req, ens)
        decls = '; '.join(p for p in params.split(', ')) + ';'
        obs.append(Ob(id='C08.' + cn, props=['C08', 'C20'], tu='kernel', tier='U', roots=[q], spec_text=spec, enforce=cn,
                      harness='void harness(void) { %s %s(%s); }' % (decls, cn, call),
                      note='static kernel handle conversion against its bit formula'))
    obs.append(Ob(id='C08.lemmas', props=['C08'], tu='kernel', tier='U',
                  roots=[m[0] for m in MEMBERS] + [s[0] for s in STATICS], harness=LEMMAS,
                  note='mutual-inverse and involution laws over the real bodies, indices over all of [0,2^31) resp. [0,2^30)'))
    # correction helpers (C02): value = h > thld ? h - k : h, element-wise for vectors (loop contract, ghost index g_u)
    for cls, H, step, vec in (('VHandleCorrection', 'VH', 1, False), ('HEHandleCorrection', 'HEH', 2, True), ('HFHandleCorrection', 'HFH', 2, True), ('CHandleCorrection', 'CH', 1, False)):
        spec = corr_spec(cls, H, step, vec)
        obs.append(Ob(id='C02.%s.correctValue' % cls, props=['C02'], tu='kernel', tier='U', roots=['OpenVolumeMesh::%s::correctValue' % cls],
                      spec_text=spec, enforce=cls + '__correctValue',
                      harness='void harness(void) { struct %s *c; struct %s *h; %s__correctValue(c, h); }' % (cls, H, cls),
                      note='index correction after an immediate deletion: h > threshold ? h - %d : h' % step))
        if vec:
            obs.append(Ob(id='C02.%s.correctVecValue' % cls, props=['C02'], tu='kernel', tier='U', roots=['OpenVolumeMesh::%s::correctVecValue' % cls],
                          spec_text=spec, enforce=cls + '__correctVecValue', replace=[cls + '__correctValue'],
                          harness='void harness(void) { ghost_havoc(); struct %s *c; struct vec_%s *v; %s__correctVecValue(c, v); }' % (cls, H, cls),
                          note='element-wise correction of a handle vector of any length >= 1 (loop contract with ghost index, callee replaced by its contract); the empty vector executes no iteration'))
    return obs
