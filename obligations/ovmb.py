"""OVMB codec group (tier U unless noted):
 C07  every unchecked Decoder primitive is under a contract `requires remaining >= k`; every header reader is run on a
      decoder of ANY size and position (buffer size symbolic, unbounded) with CBMC's pointer checks on: no over-read;
 C18  header readers reject bad magic / version / reserved / enum values and short buffers;
 C06  Encoder/Decoder primitives and header codecs are mutually inverse (bit-exact for float/double).
"""
from run import Ob
D = 'OpenVolumeMesh::IO::detail::'
P = 'IO_detail_'

def dec_setup(extra=''):
    return '''  unsigned long n = nondet_ulong(); __CPROVER_assume(n <= (1UL << 40));
  struct IO_detail_Decoder d; d.data_.data = (unsigned char *)malloc(n ? n : 1); d.data_.size = n; d.data_.cap = n;
  unsigned long off = nondet_ulong(); __CPROVER_assume(off <= n);
  d.cur_ = d.data_.data + off; d.end_ = d.data_.data + n;
  unsigned long rem = n - off; unsigned char *cur0 = d.cur_;
''' + extra

PRIMS = [('u8', 1, 'unsigned char', 'cur0[0]'), ('u16', 2, 'unsigned short', '(unsigned short)(cur0[0] | (cur0[1] << 8))'),
         ('u32', 4, 'unsigned int', '((unsigned int)cur0[0] | ((unsigned int)cur0[1] << 8) | ((unsigned int)cur0[2] << 16) | ((unsigned int)cur0[3] << 24))'),
         ('u64', 8, 'unsigned long', '((unsigned long)cur0[0] | ((unsigned long)cur0[1] << 8) | ((unsigned long)cur0[2] << 16) | ((unsigned long)cur0[3] << 24) | ((unsigned long)cur0[4] << 32) | ((unsigned long)cur0[5] << 40) | ((unsigned long)cur0[6] << 48) | ((unsigned long)cur0[7] << 56))')]

def prim_contract(name, k):
    return '''function IO_detail_Decoder__%s
  requires __CPROVER_is_fresh(self, sizeof(*self))
  requires self->data_.size <= (1UL << 40) && __CPROVER_is_fresh(self->data_.data, self->data_.size ? self->data_.size : 1)
  requires g_u <= self->data_.size && self->cur_ == self->data_.data + g_u && self->end_ == self->data_.data + self->data_.size
  requires self->data_.size - g_u >= %d
  assigns self->cur_
  ensures self->cur_ == __CPROVER_old(self->cur_) + %d
end
''' % (name, k, k)

HEADERS = [  # (struct, size, validity expression over h, has_bool_result)
    ('ArraySpan', 12, '1', False),
    ('ChunkHeader', 16, 'IO_detail__is_valid__IO_detail_ChunkType(h.type) && IO_detail__is_valid__IO_detail_ChunkFlags(h.flags) && h.padding_bytes <= h.file_length && h.payload_length == h.file_length - h.padding_bytes', False),
    ('PropChunkHeader', 16, '1', False),
    ('VertexChunkHeader', 16, 'IO_detail__is_valid__IO_detail_VertexEncoding(h.vertex_encoding)', False),
    ('TopoChunkHeader', 24, 'IO_detail__is_valid__IO_detail_TopoEntity(h.entity) && IO_detail__is_valid__IO_detail_IntEncoding(h.valence_encoding) && IO_detail__is_valid__IO_detail_IntEncoding(h.handle_encoding)', False),
    ('FileHeader', 48, 'h.header_version == 1 && IO_detail__is_valid__IO_detail_TopoType(h.topo_type)', True),
]
VALID_ROOTS = [D + 'is_valid']

def obligations():
    obs = []
    # ---- Decoder primitives: contract `requires remaining >= k`, unbounded buffer
    for name, k, ct, formula in PRIMS:
        cn = 'IO_detail_Decoder__' + name
        obs.append(Ob(id='C07.Decoder.%s.contract' % name, props=['C07', 'C06'], tu='ovmb', cfg='ovmb', tier='U', roots=[D + 'Decoder::' + name], spec_text=prim_contract(name, k), enforce=cn,
                      harness='void harness(void) { ghost_havoc(); struct IO_detail_Decoder *d; %s(d); }' % cn,
                      note='unchecked primitive %s(): memory-safe and advances by %d bytes whenever %d bytes remain (buffer of any size)' % (name, k, k)))
        obs.append(Ob(id='C06.Decoder.%s.value' % name, props=['C06'], tu='ovmb', cfg='ovmb', tier='U', roots=[D + 'Decoder::' + name],
                      harness='void harness(void) {\n' + dec_setup() + '  __CPROVER_assume(rem >= %d);\n  %s v = %s(&d);\n  __CPROVER_assert(v == %s, "C06.Decoder.%s.little_endian_value");\n  __CPROVER_assert(d.cur_ == cur0 + %d, "C06.Decoder.%s.consumes_exactly_%d_bytes");\n}' % (k, ct, cn, formula, name, k, name, k),
                      note='value decoded by %s() is the little-endian reading of the next %d bytes' % (name, k)))
    # need(): raises exactly when fewer than n bytes remain, touches nothing
    obs.append(Ob(id='C07.Decoder.need', props=['C07', 'C18'], tu='ovmb', cfg='ovmb', tier='U', roots=[D + 'Decoder::need'],
                  harness='void harness(void) {\n' + dec_setup() + '  unsigned long k = nondet_ulong();\n  IO_detail_Decoder__need(&d, k);\n  __CPROVER_assert((ovm_exc != 0) == (rem < k), "C07.Decoder.need.raises_exactly_when_fewer_bytes_remain");\n  __CPROVER_assert(d.cur_ == cur0, "C07.Decoder.need.does_not_consume");\n}',
                  note='need(k) raises parse_error iff remaining < k'))
    # padding(n) and reserved<N>(): callers must guarantee n bytes; non-zero byte => parse_error
    pad_spec = '''function IO_detail_Decoder__padding loops=1
  requires __CPROVER_is_fresh(self, sizeof(*self))
  requires self->data_.size <= (1UL << 40) && __CPROVER_is_fresh(self->data_.data, self->data_.size ? self->data_.size : 1)
  requires g_u <= self->data_.size && self->cur_ == self->data_.data + g_u && self->end_ == self->data_.data + self->data_.size
  requires self->data_.size - g_u >= n && ovm_exc == 0
  assigns self->cur_, ovm_exc
  ensures ovm_exc != 0 || self->cur_ == __CPROVER_old(self->cur_) + n
  ensures (g_j >= 0 && g_j < n && self->data_.data[g_u + g_j] != 0) ==> ovm_exc != 0
  loop 0:
    assigns i
    invariant 0 <= i && i <= n && ovm_exc == 0 && self->cur_ == self->data_.data + g_u
    invariant (g_j >= 0 && g_j < i) ==> self->cur_[g_j] == 0
    decreases n - i
end
'''
    obs.append(Ob(id='C18.Decoder.padding', props=['C18', 'C07'], tu='ovmb', cfg='ovmb', tier='B', roots=[D + 'Decoder::padding'], unwind=18, adaptive_unwind=False, bounds=dict(padding_bytes=16),
                  harness='void harness(void) {\n' + dec_setup() + '  unsigned char k = nondet_uchar(); __CPROVER_assume(k <= 16 && rem >= k);\n  unsigned long j = nondet_ulong(); __CPROVER_assume(j < k);\n  _Bool nz = cur0[j] != 0;\n  IO_detail_Decoder__padding(&d, k);\n  __CPROVER_assert(!nz || ovm_exc != 0, "C18.Decoder.padding.non_zero_padding_byte_is_rejected");\n  __CPROVER_assert(ovm_exc != 0 || d.cur_ == cur0 + k, "C18.Decoder.padding.consumes_the_padding");\n}',
                  note='padding(n), n <= 16 (bounded; the loop-contract version failed an invariant-step obligation I could not explain, DESIGN 2.16), n <= remaining, buffer of any size: a non-zero byte at any (ghost) position raises parse_error'))
    for N in (3, 4):
        obs.append(Ob(id='C18.Decoder.reserved_%d' % N, props=['C18', 'C07'], tu='ovmb', cfg='ovmb', tier='U', roots=[D + 'Decoder::reserved'], unwind=10, adaptive_unwind=False,
                      harness='void harness(void) {\n' + dec_setup() + '  __CPROVER_assume(rem >= %d);\n  _Bool nz = 0; for (int i = 0; i < %d; i++) if (cur0[i] != 0) nz = 1;\n  IO_detail_Decoder__reserved_%d(&d);\n  __CPROVER_assert(nz == (ovm_exc != 0), "C18.Decoder.reserved_%d.raises_exactly_on_a_non_zero_reserved_byte");\n  __CPROVER_assert(d.cur_ == cur0 + %d, "C18.Decoder.reserved_%d.consumes");\n}' % (N, N, N, N, N, N),
                      note='reserved<%d>() raises parse_error iff one of the %d reserved bytes is non-zero' % (N, N)))
    # ---- header readers on a decoder of any size/position: no over-read, short buffer => error, validity
    for st, size, valid, isbool in HEADERS:
        fn = 'IO_detail__read__IO_detail_Decoder_r_IO_detail_%s_r' % st
        call = ('_Bool ok = %s(&d, &h);' % fn) if isbool else ('%s(&d, &h); _Bool ok = 1;' % fn)
        obs.append(Ob(id='C07.read_%s' % st, props=['C07', 'C18'], tu='ovmb', cfg='ovmb', tier='U', roots=[(D + 'read', 'detail::' + st + ' &)')] + VALID_ROOTS, unwind=10, adaptive_unwind=False,
                      harness='void harness(void) {\n' + dec_setup() + '  struct IO_detail_%s h;\n  %s\n' % (st, call) +
                              '  __CPROVER_assert(rem >= %d || ovm_exc != 0 || !ok, "C18.read_%s.short_buffer_is_rejected");\n' % (size, st) +
                              '  __CPROVER_assert(ovm_exc != 0 || !ok || d.cur_ == cur0 + %d, "C07.read_%s.consumes_exactly_the_header");\n' % (size, st) +
                              '  __CPROVER_assert(ovm_exc != 0 || !ok || (%s), "C18.read_%s.accepted_header_has_valid_enums_and_consistent_lengths");\n}' % (valid, st),
                      note='read(Decoder&, %s&) on a decoder with any number of remaining bytes (buffer size unbounded): no out-of-bounds read (pointer checks), short input rejected, accepted header valid' % st))
    # ---- round trips: decode(encode(x)) == x
    RT = [('u8', 'unsigned char', 'nondet_uchar()'), ('u16', 'unsigned short', '(unsigned short)nondet_uint()'), ('u32', 'unsigned int', 'nondet_uint()'), ('u64', 'unsigned long', 'nondet_ulong()')]
    enc_setup = '  struct IO_detail_WriteBuffer wb; IO_detail_WriteBuffer__ctor__void(&wb);\n  struct IO_detail_Encoder e; IO_detail_Encoder__ctor__IO_detail_WriteBuffer_r(&e, &wb);\n'
    dec_from = '  struct IO_detail_Decoder d; d.data_ = wb.data_; d.data_.size = wb.pos_; d.cur_ = d.data_.data; d.end_ = d.data_.data + wb.pos_;\n'
    for name, ct, nd in RT:
        obs.append(Ob(id='C06.roundtrip.%s' % name, props=['C06'], tu='ovmb', cfg='ovmb', tier='U', roots=[D + 'Decoder::' + name, D + 'Encoder::' + name, D + 'Encoder::Encoder', D + 'WriteBuffer::WriteBuffer'], unwind=70, adaptive_unwind=False, defines={'VSTD_CAP_DEFAULT': 64},
                      harness='void harness(void) {\n' + enc_setup + '  %s x = %s;\n  IO_detail_Encoder__%s(&e, x);\n' % (ct, nd, name) + dec_from + '  %s y = IO_detail_Decoder__%s(&d);\n  __CPROVER_assert(y == x && d.cur_ == d.end_ && ovm_exc == 0, "C06.roundtrip.%s.decode_of_encode_is_identity");\n}' % (ct, name, name),
                      note='Decoder::%s(Encoder::%s(x)) == x for every x, all written bytes consumed' % (name, name)))
    for name, ct in (('flt', 'float'), ('dbl', 'double')):
        it = 'unsigned int' if name == 'flt' else 'unsigned long'
        obs.append(Ob(id='C06.roundtrip.%s' % name, props=['C06'], tu='ovmb', cfg='ovmb', tier='U', roots=[D + 'Decoder::' + name, D + 'Encoder::' + name, D + 'Encoder::Encoder', D + 'WriteBuffer::WriteBuffer'], unwind=70, adaptive_unwind=False, defines={'VSTD_CAP_DEFAULT': 64},
                      harness='%s nondet_%s(void);\nvoid harness(void) {\n' % (ct, ct) + enc_setup + '  %s x = nondet_%s();\n  IO_detail_Encoder__%s(&e, x);\n' % (ct, ct, name) + dec_from + '  %s y = IO_detail_Decoder__%s(&d);\n  %s bx, by; memcpy(&bx, &x, sizeof(x)); memcpy(&by, &y, sizeof(y));\n  __CPROVER_assert(bx == by && d.cur_ == d.end_, "C06.roundtrip.%s.bit_exact");\n}' % (ct, name, it, name),
                      note='%s values (including NaN payloads, signed zero, denormals) survive encode/decode bit for bit' % ct))
    for st, size, valid, isbool in HEADERS:
        rfn = 'IO_detail__read__IO_detail_Decoder_r_IO_detail_%s_r' % st
        wfn = 'IO_detail__write__IO_detail_Encoder_r_IO_detail_%s_r' % st
        fields = {'ArraySpan': ['first', 'count'], 'ChunkHeader': ['type', 'version', 'padding_bytes', 'compression', 'flags', 'file_length'],
                  'PropChunkHeader': ['span.first', 'span.count', 'idx'], 'VertexChunkHeader': ['span.first', 'span.count', 'vertex_encoding'],
                  'TopoChunkHeader': ['span.first', 'span.count', 'entity', 'valence', 'valence_encoding', 'handle_encoding', 'handle_offset'],
                  'FileHeader': ['file_version', 'header_version', 'vertex_dim', 'topo_type', 'n_verts', 'n_edges', 'n_faces', 'n_cells']}[st]
        pre = {'ChunkHeader': 'IO_detail__is_valid__IO_detail_ChunkType(x.type) && IO_detail__is_valid__IO_detail_ChunkFlags(x.flags) && x.padding_bytes <= x.file_length',
               'VertexChunkHeader': 'IO_detail__is_valid__IO_detail_VertexEncoding(x.vertex_encoding)',
               'TopoChunkHeader': 'IO_detail__is_valid__IO_detail_TopoEntity(x.entity) && IO_detail__is_valid__IO_detail_IntEncoding(x.valence_encoding) && IO_detail__is_valid__IO_detail_IntEncoding(x.handle_encoding)',
               'FileHeader': 'x.header_version == 1 && IO_detail__is_valid__IO_detail_TopoType(x.topo_type)'}.get(st, '1')
        call = ('_Bool ok = %s(&d, &y);' % rfn) if isbool else ('%s(&d, &y); _Bool ok = 1;' % rfn)
        eq = ' && '.join('y.%s == x.%s' % (f, f) for f in fields)
        obs.append(Ob(id='C06.roundtrip.%s' % st, props=['C06', 'C18'], tu='ovmb', cfg='ovmb', tier='U', roots=[(D + 'read', 'detail::' + st + ' &)'), (D + 'write', 'const OpenVolumeMesh::IO::detail::' + st + ' &)'), D + 'Encoder::Encoder', D + 'WriteBuffer::WriteBuffer'] + VALID_ROOTS,
                      unwind=70, adaptive_unwind=False, defines={'VSTD_CAP_DEFAULT': 64},
                      harness='void harness(void) {\n' + enc_setup + '  struct IO_detail_%s x; struct IO_detail_%s y;\n  __CPROVER_assume(%s);\n  %s(&e, &x);\n' % (st, st, pre, wfn) +
                              '  __CPROVER_assert(wb.pos_ == %d, "C06.roundtrip.%s.written_size_is_the_documented_header_size");\n' % (size, st) + dec_from + '  %s\n' % call +
                              '  __CPROVER_assert(ovm_exc == 0 && ok, "C06.roundtrip.%s.own_output_is_accepted");\n  __CPROVER_assert(%s, "C06.roundtrip.%s.every_field_survives");\n  __CPROVER_assert(d.cur_ == d.end_, "C06.roundtrip.%s.all_bytes_consumed");\n}' % (st, eq, st, st),
                      note='read(write(%s)) == identity for every header with valid enum fields; written size == %d bytes' % (st, size)))
    return obs

# ---------------------------------------------------------------------------------------------------------------
# C18: BinaryFileReader::internal_read_file - "Ok implies the end-of-file chunk was seen" (every strict prefix of a
# valid file lacks the EOF chunk or cuts a chunk). read_chunk and the kernel calls are contract stubs.
TKQ = 'OpenVolumeMesh::TopologyKernel::'
BR = D + 'BinaryFileReader::'
IRF_STUBS = {
    BR + 'read_chunk': '''{
  /* contract of read_chunk: it either leaves the ReadingChunks state (error) or consumes at least the 16-byte chunk
     header from the stream; it may record the EOF chunk; counters only grow */
  unsigned long rem = self->stream_.size_ - self->stream_.pos_;
  _Bool fail = nondet_bool();
  if (fail || rem < 16) { int st = nondet_int(); __CPROVER_assume(st != 5 && st >= 0 && st <= 20); self->state_ = st; return; }
  unsigned long k = nondet_ulong(); __CPROVER_assume(16 <= k && k <= rem);
  self->stream_.pos_ += k;
  if (nondet_bool()) self->reached_eof_chunk = 1;
}''',
    TKQ + 'clear': '{ }', TKQ + 'enable_bottom_up_incidences': '{ }', TKQ + 'add_n_vertices': '{ }',
    TKQ + 'reserve_edges': '{ }', TKQ + 'reserve_faces': '{ }', TKQ + 'reserve_cells': '{ }',
    TKQ + 'n_vertices': '{ return nondet_ulong(); }', TKQ + 'n_edges': '{ return nondet_ulong(); }',
    TKQ + 'n_faces': '{ return nondet_ulong(); }', TKQ + 'n_cells': '{ return nondet_ulong(); }',
}
IRF_SPEC = '''function IO_detail_BinaryFileReader__internal_read_file loops=1
  requires __CPROVER_is_fresh(self, sizeof(*self)) && __CPROVER_is_fresh(out, sizeof(*out))
  requires self->stream_.pos_ <= self->stream_.size_
  assigns __CPROVER_object_whole(self)
  ensures __CPROVER_return_value == 0 ==> self->reached_eof_chunk
  ensures __CPROVER_return_value == 0 ==> self->stream_.pos_ == self->stream_.size_
  ensures __CPROVER_return_value == 0 ==> self->state_ == 0
  loop 0:
    assigns __CPROVER_object_whole(self)
    invariant self->state_ == 5 && self->stream_.pos_ <= self->stream_.size_ && self->stream_.size_ == __CPROVER_loop_entry(self->stream_.size_) && self->mesh_ == out
    decreases self->stream_.size_ - self->stream_.pos_
end
'''
_base_obligations = obligations
def obligations():
    obs = _base_obligations()
    obs.append(Ob(id='C18.internal_read_file.ok_implies_eof_chunk', props=['C18'], tu='ovmb', cfg='ovmb', tier='U', roots=[BR + 'internal_read_file'],
                  spec_text=IRF_SPEC, enforce='IO_detail_BinaryFileReader__internal_read_file', stubs=IRF_STUBS,
                  harness='void harness(void) { struct IO_detail_BinaryFileReader *r; struct TopologyKernel *m; IO_detail_BinaryFileReader__internal_read_file(r, m); }',
                  note='the chunk loop is closed by a loop invariant (unbounded number of chunks, any stream length); read_chunk and the kernel calls are replaced by contract stubs; postcondition: result Ok implies the EOF chunk was seen, the stream is exhausted and the state is Ok'))
    return obs

# ---------------------------------------------------------------------------------------------------------------
# C07 / C18 / C06: topology chunk bodies. read_topo_chunk with read_edges/read_faces/read_cells and the generic
# decoding lambdas inlined (real code); the kernel's add_* are contract stubs that assert "every handle designates an
# existing entity" and record what they are given. Bounded: chunk payload <= 16 bytes, <= 2 entities per chunk.
TOPO_STUBS = {
    TKQ + 'add_edge': '''{
  __CPROVER_assert(_fromVertex.idx_ >= 0 && (unsigned long)_fromVertex.idx_ < g_nv && _toVertex.idx_ >= 0 && (unsigned long)_toVertex.idx_ < g_nv, "C07.read_topo_chunk.edge_endpoints_designate_existing_vertices");
  if (rec_n < 4) { rec_a[rec_n] = _fromVertex.idx_; rec_b[rec_n] = _toVertex.idx_; } rec_n++;
  struct EH r; r.idx_ = (int)g_ne; g_ne++; return r; }''',
    TKQ + 'add_face': '''{
  for (unsigned long k = 0; k < 8; k++) if (k < _halfedges.size) __CPROVER_assert(_halfedges.data[k].idx_ >= 0 && (unsigned long)_halfedges.data[k].idx_ < 2 * g_ne, "C07.read_topo_chunk.face_halfedges_designate_existing_edges");
  if (rec_n < 4 && _halfedges.size > 0) { rec_a[rec_n] = _halfedges.data[0].idx_; rec_b[rec_n] = (int)_halfedges.size; } rec_n++;
  struct FH r; r.idx_ = (int)g_nf; g_nf++; return r; }''',
    TKQ + 'add_cell': '''{
  for (unsigned long k = 0; k < 8; k++) if (k < _halffaces.size) __CPROVER_assert(_halffaces.data[k].idx_ >= 0 && (unsigned long)_halffaces.data[k].idx_ < 2 * g_nf, "C07.read_topo_chunk.cell_halffaces_designate_existing_faces");
  if (rec_n < 4 && _halffaces.size > 0) { rec_a[rec_n] = _halffaces.data[0].idx_; rec_b[rec_n] = (int)_halffaces.size; } rec_n++;
  struct CH r; r.idx_ = 0; return r; }''',
}
TOPO_PRE = 'unsigned long g_nv, g_ne, g_nf; int rec_n; int rec_a[4]; int rec_b[4];\n'
TOPO_HARNESS = '''
static unsigned long raw_at(const unsigned char *p, unsigned char enc) { return enc == 1 ? p[0] : (enc == 2 ? (unsigned long)(p[0] | (p[1] << 8)) : ((unsigned long)p[0] | ((unsigned long)p[1] << 8) | ((unsigned long)p[2] << 16) | ((unsigned long)p[3] << 24))); }
void harness(void) {
  struct IO_detail_BinaryFileReader r;
  struct TopologyKernel mesh; r.mesh_ = &mesh;
  __CPROVER_assume(r.state_ == 5);
  __CPROVER_assume(r.file_header_.n_verts <= 2147483647UL && r.file_header_.n_edges <= 1073741823UL && r.file_header_.n_faces <= 1073741823UL && r.file_header_.n_cells <= 2147483647UL);   /* edges/faces: counts whose half-entity handles fit an int (DESIGN S4, candidate about larger counts) */
  __CPROVER_assume(r.n_verts_read_ <= r.file_header_.n_verts && r.n_edges_read_ <= r.file_header_.n_edges && r.n_faces_read_ <= r.file_header_.n_faces && r.n_cells_read_ <= r.file_header_.n_cells);
  g_nv = r.file_header_.n_verts; g_ne = r.n_edges_read_; g_nf = r.n_faces_read_; rec_n = 0;      /* the mesh holds all vertices and the entities read so far */
  unsigned long n = nondet_ulong(); __CPROVER_assume(n <= 40);
  struct IO_detail_Decoder d; d.data_.data = (unsigned char *)malloc(n ? n : 1); d.data_.size = n; d.data_.cap = n; d.cur_ = d.data_.data; d.end_ = d.data_.data + n;
  unsigned long ne0 = r.n_edges_read_, nf0 = r.n_faces_read_, nc0 = r.n_cells_read_;
  IO_detail_BinaryFileReader__read_topo_chunk(&r, &d);
  _Bool accepted = r.state_ == 5 && ovm_exc == 0;
  /* the header as the format describes it (read_TopoChunkHeader is verified on its own) */
  unsigned long first = 0; for (int i = 7; i >= 0; i--) first = (first << 8) | (n >= 24 ? d.data_.data[i] : 0);
  unsigned long count = n >= 24 ? raw_at(d.data_.data + 8, 4) : 0;
  unsigned char entity = n >= 24 ? d.data_.data[12] : 0, valence = n >= 24 ? d.data_.data[13] : 0, henc = n >= 24 ? d.data_.data[15] : 0;
  unsigned long offset = 0; for (int i = 23; i >= 16; i--) offset = (offset << 8) | (n >= 24 ? d.data_.data[i] : 0);
  __CPROVER_assert(!accepted || n >= 24, "C18.read_topo_chunk.short_chunk_is_rejected");
  __CPROVER_assert(!accepted || count >= 1, "C18.read_topo_chunk.empty_span_is_rejected");
  __CPROVER_assert(!accepted || d.cur_ == d.end_, "C18.read_topo_chunk.accepted_chunk_is_fully_consumed");
  __CPROVER_assert(!accepted || entity != 1 || (first == ne0 && r.n_edges_read_ == ne0 + count && r.n_edges_read_ <= r.file_header_.n_edges && (unsigned long)rec_n == count), "C18.read_topo_chunk.edge_span_continues_where_the_last_left_off_and_stays_within_the_declared_total");
  __CPROVER_assert(!accepted || entity != 2 || (first == nf0 && r.n_faces_read_ == nf0 + count && r.n_faces_read_ <= r.file_header_.n_faces && (unsigned long)rec_n == count), "C18.read_topo_chunk.face_span_consistent");
  __CPROVER_assert(!accepted || entity != 3 || (first == nc0 && r.n_cells_read_ == nc0 + count && r.n_cells_read_ <= r.file_header_.n_cells && (unsigned long)rec_n == count), "C18.read_topo_chunk.cell_span_consistent");
  /* handle values: stored handle + handle_offset, as the format description says, with no wrap-around */
  __CPROVER_assert(!accepted || entity != 1 || valence != 2 || rec_n < 1 || ((unsigned long)rec_a[0] == raw_at(d.data_.data + 24, henc) + offset), "C06.read_topo_chunk.edge_vertex_handle_is_stored_value_plus_handle_offset");
  __CPROVER_assert(!accepted || entity != 2 || valence == 0 || rec_n < 1 || ((unsigned long)rec_a[0] == raw_at(d.data_.data + 24, henc) + offset && rec_b[0] == valence), "C18.read_topo_chunk.face_halfedge_handle_is_stored_value_plus_handle_offset");
  __CPROVER_assert(!accepted || entity != 3 || valence == 0 || rec_n < 1 || ((unsigned long)rec_a[0] == raw_at(d.data_.data + 24, henc) + offset && rec_b[0] == valence), "C18.read_topo_chunk.cell_halfface_handle_is_stored_value_plus_handle_offset");
}
'''
_base2 = obligations
def obligations():
    obs = _base2()
    for ent, ename in ((1, 'edges'), (2, 'faces'), (3, 'cells')):
        for var in (0, 1):
            cons = '  unsigned long n = nondet_ulong(); __CPROVER_assume(n <= %d);' % (28 if not var else 30)
            h = TOPO_HARNESS.replace('  unsigned long n = nondet_ulong(); __CPROVER_assume(n <= 40);', cons)
            h = h.replace('  unsigned long ne0 = r.n_edges_read_', '  if (n >= 24) { __CPROVER_assume(d.data_.data[12] == %d); __CPROVER_assume(%s); }\n  unsigned long ne0 = r.n_edges_read_' % (ent, 'd.data_.data[13] == 0' if var else 'd.data_.data[13] != 0'))
            obs.append(Ob(id='C07.read_topo_chunk.%s.%s_valence' % (ename, 'variable' if var else 'fixed'), props=['C07', 'C18', 'C06'], quick_for=([] if var else ['C07', 'C18', 'C06']), tu='ovmb', cfg='ovmb', tier='B', roots=[BR + 'read_topo_chunk'], stubs=TOPO_STUBS, harness=h, preamble=TOPO_PRE,
                          unwind=36, unwind_start=4, timeout=3000, mem_gb=24, defines={'VSTD_CAP_DEFAULT': 12}, bounds=dict(chunk_bytes=28 if not var else 30, payload_bytes=4 if not var else 6),
                          note='read_topo_chunk (%s, %s valence) with the per-encoding decoding lambdas inlined, on ANY chunk of up to %d bytes and any reader state; kernel add_* are stubs asserting that every handle designates an existing entity' % (ename, 'variable' if var else 'fixed', 28 if not var else 30)))
    obs.append(Ob(id='C07.validate_span', props=['C07', 'C18'], tu='ovmb', cfg='ovmb', tier='U', roots=[BR + 'validate_span'],
                  harness='void harness(void) { struct IO_detail_BinaryFileReader r; unsigned long total = nondet_ulong(), rd = nondet_ulong(); struct IO_detail_ArraySpan s; __CPROVER_assume(rd <= total);\n  _Bool ok = IO_detail_BinaryFileReader__validate_span(&r, total, rd, &s);\n  __CPROVER_assert(ok == (s.first == rd && s.count <= total - rd), "C18.validate_span.accepts_exactly_spans_that_continue_and_fit");\n  __CPROVER_assert(!ok || s.first + s.count <= total, "C07.validate_span.accepted_span_ends_within_the_declared_total");\n}',
                  note='validate_span(total, read, span) for all 64-bit arguments with read <= total'))
    obs.append(Ob(id='C06.suitable_int_encoding', props=['C06'], tu='ovmb', cfg='ovmb', tier='U', roots=[D + 'suitable_int_encoding', D + 'elem_size'],
                  harness='void harness(void) { unsigned int m = nondet_uint(); unsigned char e = IO_detail__suitable_int_encoding(m); unsigned char sz = IO_detail__elem_size__IO_detail_IntEncoding(e);\n  __CPROVER_assert(sz == 1 || sz == 2 || sz == 4, "C06.suitable_int_encoding.valid_encoding");\n  __CPROVER_assert(sz == 4 || (unsigned long)m < (1UL << (8 * sz)), "C06.suitable_int_encoding.every_value_up_to_max_fits_the_chosen_width");\n  __CPROVER_assert(sz == 1 || (unsigned long)m >= (1UL << (4 * sz)), "C06.suitable_int_encoding.narrowest_width_is_chosen");\n}',
                  note='suitable_int_encoding(max_value) for all 2^32 arguments: the chosen width holds max_value (255/256 and 65535/65536 boundaries) and is the narrowest'))
    return obs

# ---------------------------------------------------------------------------------------------------------------
# C06: topology chunk round trip. The REAL BinaryFileWriter::write_edges / write_faces / write_cells (with
# start_topo_chunk, suitable_int_encoding and the per-encoding lambdas) fill the chunk buffer from ANY well-formed mesh
# within the caps and any span; the REAL read_topo_chunk then decodes exactly those bytes; the kernel's add_* are
# recording stubs. Claim: the reader accepts, consumes every byte, and hands the kernel exactly the definitions of the
# entities in the span, in order. write_chunk (chunk header + stream output) is a stub: the framing is C18's.
BW = 'OpenVolumeMesh::IO::detail::BinaryFileWriter'
RT_STUBS = {
    TKQ + 'add_edge': '{ if (rec_n < 4) { rec_l[rec_n][0] = _fromVertex.idx_; rec_l[rec_n][1] = _toVertex.idx_; rec_len[rec_n] = 2; } rec_n++; struct EH r; r.idx_ = 0; return r; }',
    TKQ + 'add_face': '{ if (rec_n < 4) { rec_len[rec_n] = (int)_halfedges.size; for (int k = 0; k < 4; k++) rec_l[rec_n][k] = (unsigned long)k < _halfedges.size ? _halfedges.data[k].idx_ : -7; } rec_n++; struct FH r; r.idx_ = 0; return r; }',
    TKQ + 'add_cell': '{ if (rec_n < 4) { rec_len[rec_n] = (int)_halffaces.size; for (int k = 0; k < 4; k++) rec_l[rec_n][k] = (unsigned long)k < _halffaces.size ? _halffaces.data[k].idx_ : -7; } rec_n++; struct CH r; r.idx_ = 0; return r; }',
    BW + '::write_chunk': '{ }',
}
RT_PRE = 'int rec_n; int rec_l[4][4]; int rec_len[4];\n'
RT_HARNESS = '''
void harness(void) {
  TK m; sym_mesh(&m); __CPROVER_assume(wf(&m));
  __CPROVER_assume(m.n_deleted_vertices_ == 0 && m.n_deleted_edges_ == 0 && m.n_deleted_faces_ == 0 && m.n_deleted_cells_ == 0);      /* the writer refuses meshes with pending deletions */
  struct IO_detail_BinaryFileWriter w; w.mesh_ = &m; vec_uchar_init(&w.chunk_buffer_.data_); w.chunk_buffer_.pos_ = 0;
  struct IO_detail_ArraySpan span; unsigned long total = %(TOTAL)s;
  __CPROVER_assume(span.count >= 1 && span.first <= total && span.count <= total - span.first);
  %(WRITE)s(&w, &span);
  __CPROVER_assert(ovm_exc == 0, "C06.roundtrip.%(ent)s.writer_does_not_fail");
  /* the reader, positioned where this span starts */
  struct IO_detail_BinaryFileReader r; struct TopologyKernel out; r.mesh_ = &out; r.state_ = 5;
  r.file_header_.n_verts = m.n_vertices_; r.file_header_.n_edges = m.edges_.size; r.file_header_.n_faces = m.faces_.size; r.file_header_.n_cells = m.cells_.size; r.file_header_.topo_type = 0;
  r.n_verts_read_ = m.n_vertices_; r.n_edges_read_ = %(NE)s; r.n_faces_read_ = %(NF)s; r.n_cells_read_ = %(NC)s;
  unsigned long n = w.chunk_buffer_.pos_;
  struct IO_detail_Decoder d; d.data_.data = w.chunk_buffer_.data_.data; d.data_.size = n; d.data_.cap = n; d.cur_ = d.data_.data; d.end_ = d.data_.data + n;
  rec_n = 0;
  COVER(span.count == 2, "a span of two entities"); COVER_END;
  IO_detail_BinaryFileReader__read_topo_chunk(&r, &d);
  __CPROVER_assert(r.state_ == 5 && ovm_exc == 0, "C06.roundtrip.%(ent)s.the_reader_accepts_what_the_writer_wrote");
  __CPROVER_assert(d.cur_ == d.end_, "C06.roundtrip.%(ent)s.every_byte_is_consumed");
  __CPROVER_assert((unsigned long)rec_n == span.count && %(CNT)s == %(CNT0)s + span.count, "C06.roundtrip.%(ent)s.one_kernel_call_per_entity_of_the_span");
  _Bool same = 1;
  for (unsigned long i = 0; i < 4; i++) if (i < span.count && i < (unsigned long)rec_n) { unsigned long e = span.first + i;
%(CMP)s }
  __CPROVER_assert(same, "C06.roundtrip.%(ent)s.the_kernel_receives_exactly_the_definitions_of_the_span_in_order");
}
'''
_base3 = obligations
def obligations():
    obs = _base3()
    from obligations._mesh import caps as mcaps
    SPEC = {
      'edges': dict(TOTAL='m.edges_.size', WRITE='IO_detail_BinaryFileWriter__write_edges', NE='span.first', NF='0', NC='0', CNT='r.n_edges_read_', CNT0='span.first',
                    CMP='    if (rec_len[i] != 2 || rec_l[i][0] != EFROM(&m, e) || rec_l[i][1] != ETO(&m, e)) same = 0;'),
      'faces': dict(TOTAL='m.faces_.size', WRITE='IO_detail_BinaryFileWriter__write_faces', NE='m.edges_.size', NF='span.first', NC='0', CNT='r.n_faces_read_', CNT0='span.first',
                    CMP='    if ((unsigned long)rec_len[i] != FVAL(&m, e)) same = 0; for (unsigned long k = 0; k < LFV; k++) if (k < FVAL(&m, e) && rec_l[i][k] != FHE(&m, e, k)) same = 0;'),
      'cells': dict(TOTAL='m.cells_.size', WRITE='IO_detail_BinaryFileWriter__write_cells', NE='m.edges_.size', NF='m.faces_.size', NC='span.first', CNT='r.n_cells_read_', CNT0='span.first',
                    CMP='    if ((unsigned long)rec_len[i] != CVAL(&m, e)) same = 0; for (unsigned long k = 0; k < LCV; k++) if (k < CVAL(&m, e) && rec_l[i][k] != CHF(&m, e, k)) same = 0;'),
    }
    for ent, sp in SPEC.items():
        d = mcaps(v=2, e=2, f=2, c=2, fv=3, cv=3, out=2, inc=2)
        d.update(CFG_V=0, CFG_E=0, CFG_F=0, CFG_DEFERRED=1, CFG_FAST=0, VSTD_CAP_DEFAULT=96)
        obs.append(Ob(id='C06.roundtrip.' + ent, props=['C06', 'C18'], quick_for=[], tu='ovmb', cfg='ovmb', tier='B', roots=[BW + '::write_' + ent, BR + 'read_topo_chunk'], stubs=RT_STUBS, preamble=RT_PRE,
                      harness=RT_HARNESS % dict(sp, ent=ent), includes=['wf.h'], defines=d,
                      unwind=100, unwind_start=5, covers=1, timeout=3000, mem_gb=20,
                      bounds=dict(vertices=2, edges=2, faces=2, cells=2, face_valence=3, cell_valence=3, span='any span of the mesh'),
                      note='write_%s then read_topo_chunk on the bytes written, for any well-formed mesh within the caps without pending deletions and any span; kernel add_* record what they receive' % ent))
    return obs

# ---------------------------------------------------------------------------------------------------------------
# C07 / C18: BinaryFileReader::compatibility<MeshT>() per mesh type (tier U, loop-free): Ok only for a header whose
# vertex dimension equals the mesh's, whose topology type fits a specialised kernel, whose header version is 1 and
# whose entity counts fit a handle. This is the invariant the vertex-chunk reader relies on (it sizes the chunk from
# the file's vertex_dim and reads the mesh's dimension per vertex). read_header is a stub (state arbitrary).
COMPAT_H = '''
void harness(void) {
  struct IO_detail_BinaryFileReader r;
  int res = verif_drv__compat_%(drv)s(&r);
  _Bool ok = r.state_ != 7 /* ReadState::Error */ && r.file_header_.header_version == 1 && r.file_header_.vertex_dim == %(dim)d && %(topo)s &&
             r.file_header_.n_verts <= 2147483647UL && r.file_header_.n_edges <= 2147483647UL && r.file_header_.n_faces <= 2147483647UL && r.file_header_.n_cells <= 2147483647UL;
  __CPROVER_assert((res == 0) == ok, "C07.compatibility.%(drv)s.ok_exactly_for_a_header_with_the_mesh_dimension_a_fitting_topology_type_version_1_and_counts_that_fit_a_handle");
  __CPROVER_assert(res != 0 || r.file_header_.vertex_dim == %(dim)d, "C07.compatibility.%(drv)s.an_accepted_file_has_exactly_the_vertex_dimension_of_the_mesh (the vertex chunk reader depends on it)");
}
'''
_base4 = obligations
def obligations():
    obs = _base4()
    for drv, dim, topo in (('poly3d', 3, '1'), ('tet3d', 3, 'r.file_header_.topo_type == 1'), ('hex3d', 3, 'r.file_header_.topo_type == 2'), ('poly2d', 2, '1')):
        obs.append(Ob(id='C07.compatibility.' + drv, props=['C07', 'C18'], quick_for=['C07', 'C18'], tu='readerinst', cfg='ovmb', tier='U', roots=['OpenVolumeMesh::verif_drv::compat_' + drv],
                      stubs={BR + 'read_header': '{ return nondet_bool(); }'}, harness=COMPAT_H % dict(drv=drv, dim=dim, topo=topo),
                      note='compatibility<%s>() for every header and reader state (read_header stubbed)' % drv))
    return obs

# ---------------------------------------------------------------------------------------------------------------
# C07: read_vertices_chunk. The geometry reader (a template per vector type, virtual call) is a contract stub whose
# precondition is what GeometryReaderT<VecT>::read needs: the decoder still holds count * vertex_dim * element size
# bytes (it reads that many without any check of its own) and the span lies inside the vertices of the mesh.
VERT_H = '''
void harness(void) {
  struct IO_detail_BinaryFileReader r; struct IO_detail_GeometryReaderBase gr; r.geometry_reader_ = &gr;
  __CPROVER_assume(r.state_ == 5 && r.n_verts_read_ <= r.file_header_.n_verts && r.file_header_.n_verts <= 2147483647UL);
  __CPROVER_assume(r.file_header_.vertex_dim >= 1);
  g_dim = r.file_header_.vertex_dim; g_nv = r.file_header_.n_verts; gr_calls = 0;      /* compatibility() has established vertex_dim == dimension of the mesh's points */
  unsigned long n = nondet_ulong(); __CPROVER_assume(n <= 64);
  struct IO_detail_Decoder d; d.data_.data = (unsigned char *)malloc(n ? n : 1); d.data_.size = n; d.data_.cap = n; d.cur_ = d.data_.data; d.end_ = d.data_.data + n;
  IO_detail_BinaryFileReader__read_vertices_chunk(&r, &d);
  __CPROVER_assert(r.state_ != 5 || ovm_exc != 0 || gr_calls == 1, "C18.read_vertices_chunk.an_accepted_chunk_is_handed_to_the_geometry_reader_once");
}
'''
VERT_STUBS = {'OpenVolumeMesh::IO::detail::GeometryReaderBase::read': '''{
  gr_calls++;
  unsigned long esz = encoding == 1 ? 4 : (encoding == 2 ? 8 : 0);      /* encoding None: a topology-only file, nothing is read */
  __CPROVER_assert((unsigned long)(_decoder->end_ - _decoder->cur_) >= (unsigned long)count * g_dim * esz, "C07.read_vertices_chunk.the_geometry_reader_is_called_only_when_the_chunk_holds_count_x_dimension_x_element_size_bytes (it reads them unchecked)");
  __CPROVER_assert((unsigned long)first + (unsigned long)count <= g_nv, "C07.read_vertices_chunk.the_span_lies_inside_the_vertices_of_the_mesh");
  _decoder->cur_ = _decoder->end_; }'''}
VERT_PRE = 'unsigned long g_dim, g_nv; int gr_calls;\n'
def _vert_cfg(cfg):
    cfg['drop_fields'] = dict(cfg['drop_fields']); cfg['drop_fields'][BR[:-2]] = ['prop_codecs_', 'props_']
_base5 = obligations
def obligations():
    obs = _base5()
    obs.append(Ob(id='C07.read_vertices_chunk', props=['C07', 'C18'], quick_for=['C07'], tu='ovmb', cfg='ovmb', tier='B', roots=[BR + 'read_vertices_chunk'], stubs=VERT_STUBS, preamble=VERT_PRE, harness=VERT_H, cfg_edit=_vert_cfg,
                  unwind=4, timeout=900, bounds=dict(chunk_bytes=64), note='read_vertices_chunk on any chunk of up to 64 bytes and any reader state; the geometry reader is a stub asserting its own (unchecked) needs'))
    return obs
