"""C05 (circulators), tier B on constructive shapes: every circulator, for every centre handle of the shape (symbolic) and
1..2 laps, enumerates exactly its incident set (as specified by a brute-force scan), each element once per lap, stays
valid exactly that long, an empty neighbourhood yields an immediately invalid circulator, and a backward step undoes
a forward step. The frame clause (mesh unchanged) serves C20."""
import re
from run import Ob
from obligations._mesh import MeshHarness
from obligations.query import SHAPES, DEFS, ROOTS_BUILD, rng, NV, NE, NF, NC, TK
def A(cond, name, n): return '  __CPROVER_assert(%s, "C05.%s.%s");' % (cond, n, name)

# name -> (centre struct, centre range, target range, membership spec over (c, x), ordered spec or None, shapes)
HE2 = '2 * ' + NE; HF2 = '2 * ' + NF
CIRC = {
 'voh_iter': ('VH', NV, HE2, '!EDEL(&m, x >> 1) && HEFROM(&m, x) == c', None, ['prism', 'open']),
 'vih_iter': ('VH', NV, HE2, '!EDEL(&m, x >> 1) && HETO(&m, x) == c', None, ['prism', 'open']),
 've_iter':  ('VH', NV, NE, '!EDEL(&m, x) && (EFROM(&m, x) == c || ETO(&m, x) == c)', None, ['prism', 'open']),
 'vv_iter':  ('VH', NV, NV, 'spec_live_he(&m, c, x)', None, ['prism', 'open']),
 'vf_iter':  ('VH', NV, NF, '!FDEL(&m, x) && spec_vertex_in_hf(&m, 2 * x, c)', None, ['prism', 'open']),
 'vhf_iter': ('VH', NV, HF2, '!FDEL(&m, x >> 1) && spec_vertex_in_hf(&m, x, c)', None, ['tet', 'open']),
 'vc_iter':  ('VH', NV, NC, '!CDEL(&m, x) && spec_vertex_in_cell(&m, x, c)', None, ['twotets', 'open']),
 'hehf_iter': ('HEH', HE2, HF2, '!FDEL(&m, x >> 1) && spec_he_in_hf(&m, x, c)', None, ['twotets', 'open']),
 'hef_iter': ('HEH', HE2, NF, '!FDEL(&m, x) && (spec_he_in_hf(&m, 2 * x, c) || spec_he_in_hf(&m, 2 * x + 1, c))', None, ['twotets', 'open']),
 'hec_iter': ('HEH', HE2, NC, '!CDEL(&m, x) && spec_he_in_cell(&m, x, c)', None, ['twotets', 'open']),
 'ehf_iter': ('EH', NE, HF2, '!FDEL(&m, x >> 1) && (spec_he_in_hf(&m, x, 2 * c) || spec_he_in_hf(&m, x, 2 * c + 1))', None, ['twotets', 'open']),
 'ef_iter':  ('EH', NE, NF, '!FDEL(&m, x) && (spec_he_in_hf(&m, 2 * x, 2 * c) || spec_he_in_hf(&m, 2 * x, 2 * c + 1))', None, ['twotets', 'open']),
 'ec_iter':  ('EH', NE, NC, '!CDEL(&m, x) && spec_he_in_cell(&m, x, 2 * c)', None, ['twotets', 'open']),
 'hfhe_iter': ('HFH', HF2, HE2, 'spec_he_in_hf(&m, c, x)', 'spec_hf_he(&m, c, (unsigned long)k %% FVAL(&m, c >> 1))', ['prism', 'quadpillow']),
 'hfe_iter': ('HFH', HF2, NE, 'spec_he_in_hf(&m, c, 2 * x) || spec_he_in_hf(&m, c, 2 * x + 1)', 'spec_hf_he(&m, c, (unsigned long)k %% FVAL(&m, c >> 1)) >> 1', ['prism', 'quadpillow']),
 'hfv_iter': ('HFH', HF2, NV, 'spec_vertex_in_hf(&m, c, x)', 'spec_hf_vertex(&m, c, (unsigned long)k %% FVAL(&m, c >> 1))', ['prism', 'quadpillow']),
 'fhe_iter': ('FH', NF, HE2, 'spec_he_in_hf(&m, 2 * c, x)', 'FHE(&m, c, (unsigned long)k %% FVAL(&m, c))', ['prism', 'open']),
 'fe_iter':  ('FH', NF, NE, 'spec_he_in_hf(&m, 2 * c, 2 * x) || spec_he_in_hf(&m, 2 * c, 2 * x + 1)', 'FHE(&m, c, (unsigned long)k %% FVAL(&m, c)) >> 1', ['prism', 'open']),
 'fv_iter':  ('FH', NF, NV, 'spec_vertex_in_hf(&m, 2 * c, x)', 'spec_hf_vertex(&m, 2 * c, (unsigned long)k %% FVAL(&m, c))', ['prism', 'open']),
 'chf_iter': ('CH', NC, HF2, 'spec_cell_lists(&m, c, x)', 'CHF(&m, c, (unsigned long)k %% CVAL(&m, c))', ['prism', 'twotets']),
 'cf_iter':  ('CH', NC, NF, 'spec_cell_lists(&m, c, 2 * x) || spec_cell_lists(&m, c, 2 * x + 1)', 'CHF(&m, c, (unsigned long)k %% CVAL(&m, c)) >> 1', ['prism', 'twotets']),
 'cv_iter':  ('CH', NC, NV, 'spec_vertex_in_cell(&m, c, x)', None, ['prism', 'twotets']),
 'ce_iter':  ('CH', NC, NE, 'spec_he_in_cell(&m, c, 2 * x)', None, ['tet', 'twotets']),
 'che_iter': ('CH', NC, HE2, 'spec_he_in_cell_oriented(&m, c, x)', None, ['tet', 'twotets']),
 'cc_iter':  ('CH', NC, NC, 'x != c && !CDEL(&m, x) && spec_cells_share_face(&m, c, x)', None, ['twotets', 'prism']),
}
KMAX = 20

def obligations():
    obs = []
    for name, (H, crange, trange, member, ordered, shapes) in CIRC.items():
        for sh in shapes:
            n = '%s.%s' % (name, sh)
            pre = '  TK m; { static const int W0[] = {SHAPE_W}; int aa[4]; unwitness(W0, &m, aa); }'
            args = '  int c = ARG(0), laps = ARG(1);\n  __CPROVER_assume(%s && 1 <= laps && laps <= 2);' % rng('c', crange)
            call = '''  int seq[%(K)d]; int cnt = 0; _Bool back_ok = 1; _Bool first_valid;
  { struct %(H)s hc; hc.idx_ = c;
    @TYPE(%(f)s)@ it = TopologyKernel__%(f)s(&m, hc, laps);
    first_valid = it.valid_;
    for (int s = 0; s < %(K)d; s++) if (it.valid_) {
      seq[cnt] = it.cur_handle_.idx_; cnt++;
      @TYPE(%(f)s)@ before = it;
      @INC(%(f)s)@(&it);
      if (it.valid_) { @TYPE(%(f)s)@ b2 = it; @DEC(%(f)s)@(&b2); if (!(b2.cur_handle_.idx_ == before.cur_handle_.idx_ && b2.lap_ == before.lap_ && b2.valid_ == before.valid_)) back_ok = 0; }
    }
    ret = it.valid_; }''' % dict(K=(26 if name == 'che_iter' else KMAX), H=H, f=name)
            post = ['  int total = 0; for (int x = 0; x < %d; x++) if ((unsigned long)x < %s && (%s)) total++;' % (24, trange, member),
                    A('first_valid == (total > 0)', 'a centre with nothing incident yields an immediately invalid circulator', n),
                    A('cnt == laps * total && ret == 0', 'visits its incident set exactly max_laps times, then becomes invalid', n),
                    A('g_k < 0 || g_k >= cnt || (seq[g_k] >= 0 && (unsigned long)seq[g_k] < %s && (%s))' % (trange, re.sub(r'\bx\b', 'seq[g_k]', member)), 'every reported entity is incident (and live)', n),
                    A('g_k < 0 || g_j < 0 || g_k >= g_j || g_j >= total || g_j >= cnt || seq[g_k] != seq[g_j]', 'no duplicates within a lap', n),
                    A('g_k < 0 || g_k + total >= cnt || total == 0 || seq[g_k] == seq[g_k + total]', 'every lap reports the same sequence', n),
                    A('back_ok', 'stepping backward undoes stepping forward (while the circulator stays valid)', n),
                    A('same_state(&o, &m) && TopologyKernel__seq(&o, &m)', 'traversal leaves the whole mesh state unchanged - known components by content, every other field of the kernel object by a generated comparison (write frame: C20)', n)]
            if ordered:
                post.append(A('g_k < 0 || g_k >= cnt || seq[g_k] == (%s)' % ordered.replace('%%', '%').replace('(unsigned long)k', '(unsigned long)g_k'), 'reports the definition order', n))
            mh = MeshHarness(args=args, call=call, post='\n'.join(post), op='none', pre=pre, snap='  witness(&o, c, laps, 0, 0);\n  COVER(1, "reachable");')
            # quick tier: one cheap shape per circulator (measured < 60 s each); the rest is thorough only
            QUICK = {'vhf_iter': 'open', 'hfe_iter': None, 'hfv_iter': None, 'fv_iter': None, 'che_iter': None, 'cv_iter': None, 'ce_iter': None, 'vv_iter': 'open'}
            qf = ['C05'] if sh == QUICK.get(name, shapes[0]) else []
            mirror = name in ('hfhe_iter', 'hfe_iter', 'hfv_iter')      # ordered halfface circulators: the odd side must run the even side's cycle backwards (C08)
            if mirror and sh == 'quadpillow': qf = qf + ['C08']
            obs.append(Ob(id='C05.circ.' + n, props=['C05', 'C20', 'C01'] + (['C08'] if mirror else []), quick_for=qf, tu='kernel', tier='B', roots=ROOTS_BUILD, harness=mh,
                          includes=['wf.h', 'view.h', 'add_spec.h', 'query_spec.h', 'circ_spec.h', 'shapes.h'], copies=[TK], defines=dict(DEFS), unwind=(44 if name in ('ce_iter', 'che_iter') else 26), unwind_start=8, covers=1, timeout=1500,
                          inits={'tk_init': TK}, prebuild_shape=SHAPES[sh], bounds=dict(shape=sh, centre='all handles of the shape (symbolic)', laps='1..2'),
                          note='circulator %s on the constructive shape "%s": centre symbolic over the whole handle range, 1 or 2 laps; incident set = brute-force scan' % (name, sh)))
    return obs
