// unity TU: only #includes repository sources (tetrahedral and hexahedral kernels on top of the core kernel)
#include <OpenVolumeMesh/Core/Handles.cc>
#include <OpenVolumeMesh/Core/BaseEntities.cc>
#include <OpenVolumeMesh/Core/ResourceManager.cc>
#include <OpenVolumeMesh/Core/TopologyKernel.cc>
#include <OpenVolumeMesh/Core/Iterators.cc>
#include <OpenVolumeMesh/Mesh/TetrahedralMeshTopologyKernel.cc>
#include <OpenVolumeMesh/Mesh/TetrahedralMeshIterators.cc>
#include <OpenVolumeMesh/Mesh/HexahedralMeshTopologyKernel.cc>
#include <OpenVolumeMesh/Mesh/HexahedralMeshIterators.cc>
#include <OpenVolumeMesh/Unstable/Topology/TetTopology.cc>
#include <OpenVolumeMesh/Unstable/Topology/TriangleTopology.cc>
