// unity TU: only #includes repository sources (OVMB reader/writer/codec group)
#include <OpenVolumeMesh/Core/Handles.cc>
#include <OpenVolumeMesh/Core/BaseEntities.cc>
#include <OpenVolumeMesh/Core/ResourceManager.cc>
#include <OpenVolumeMesh/Core/TopologyKernel.cc>
#include <OpenVolumeMesh/Core/Iterators.cc>
#include <OpenVolumeMesh/IO/detail/Decoder.cc>
#include <OpenVolumeMesh/IO/detail/Encoder.cc>
#include <OpenVolumeMesh/IO/detail/WriteBuffer.cc>
#include <OpenVolumeMesh/IO/detail/BinaryIStream.cc>
#include <OpenVolumeMesh/IO/detail/ovmb_format.cc>
#include <OpenVolumeMesh/IO/detail/ovmb_codec.cc>
#include <OpenVolumeMesh/IO/enums.cc>
#include <OpenVolumeMesh/IO/PropertyCodecs.cc>
#include <OpenVolumeMesh/IO/detail/BinaryFileReader.cc>
#include <OpenVolumeMesh/IO/detail/BinaryFileWriter.cc>
