// unity TU: only #includes repository sources
#include <OpenVolumeMesh/Core/Handles.cc>
#include <OpenVolumeMesh/Core/BaseEntities.cc>
#include <OpenVolumeMesh/Core/ResourceManager.cc>
#include <OpenVolumeMesh/Core/TopologyKernel.cc>
#include <OpenVolumeMesh/Core/Iterators.cc>
