// TU for C03 (property storage): the repository's PropertyStorageT template. Its members exist in the AST only where
// they are used, so the functions below are instantiation drivers (one repository operation each, nothing else).
#include <OpenVolumeMesh/Core/Properties/PropertyStorageT.hh>
#include <OpenVolumeMesh/Core/Properties/PropertyStorageBase.cc>
#include <OpenVolumeMesh/Core/detail/internal_type_name.cc>
namespace OpenVolumeMesh { namespace verif_drv {
#define PDRV(S, T) \
  void S##_resize(PropertyStorageT<T> &s, size_t n) { s.resize(n); } \
  void S##_reserve(PropertyStorageT<T> &s, size_t n) { s.reserve(n); } \
  void S##_clear(PropertyStorageT<T> &s) { s.clear(); } \
  void S##_push_back(PropertyStorageT<T> &s) { s.push_back(); } \
  void S##_swap(PropertyStorageT<T> &s, size_t i, size_t j) { s.swap(i, j); } \
  void S##_copy(PropertyStorageT<T> &s, size_t src, size_t dst) { s.copy(src, dst); } \
  void S##_delete_element(PropertyStorageT<T> &s, size_t i) { s.delete_element(i); } \
  size_t S##_size(const PropertyStorageT<T> &s) { return s.size(); } \
  T S##_get(const PropertyStorageT<T> &s, size_t i) { return s[i]; } \
  void S##_set(PropertyStorageT<T> &s, size_t i, T v) { s[i] = v; } \
  T S##_def(const PropertyStorageT<T> &s) { return s.def(); } \
  void S##_fill(PropertyStorageT<T> &s, T v) { s.fill(v); }
PDRV(pi, int)
PDRV(pb, bool)
PDRV(pd, double)
} }
