// TU for C19: includes the repository's vector header. VectorT is a template, so its member templates exist in the
// AST only where they are used; the functions below are instantiation drivers (one repository operation each, nothing
// else). The verified bodies are the instantiated repository templates; the drivers are the harness entry points.
#include <OpenVolumeMesh/Geometry/VectorT.hh>
namespace OpenVolumeMesh { namespace verif_drv {
#define DRV(S, V, SC) \
  V S##_add(const V &a, const V &b) { return a + b; } \
  V S##_sub(const V &a, const V &b) { return a - b; } \
  V S##_mul(const V &a, const V &b) { return a * b; } \
  V S##_div(const V &a, const V &b) { return a / b; } \
  V S##_neg(const V &a) { return -a; } \
  V S##_smul(const V &a, SC s) { return a * s; } \
  V S##_smul_left(const V &a, SC s) { return s * a; } \
  V S##_sdiv(const V &a, SC s) { return a / s; } \
  void S##_iadd(V &a, const V &b) { a += b; } \
  void S##_isub(V &a, const V &b) { a -= b; } \
  void S##_imul(V &a, const V &b) { a *= b; } \
  void S##_idiv(V &a, const V &b) { a /= b; } \
  void S##_ismul(V &a, SC s) { a *= s; } \
  void S##_isdiv(V &a, SC s) { a /= s; } \
  bool S##_eq(const V &a, const V &b) { return a == b; } \
  bool S##_ne(const V &a, const V &b) { return a != b; } \
  bool S##_lt(const V &a, const V &b) { return a < b; } \
  auto S##_dot(const V &a, const V &b) { return a | b; } \
  auto S##_dot_free(const V &a, const V &b) { return dot(a, b); } \
  auto S##_dot_member(const V &a, const V &b) { return a.dot(b); } \
  auto S##_sqrnorm(const V &a) { return a.sqrnorm(); } \
  SC S##_l1_norm(const V &a) { return a.l1_norm(); } \
  SC S##_l8_norm(const V &a) { return a.l8_norm(); } \
  SC S##_max(const V &a) { return a.max(); } \
  SC S##_min(const V &a) { return a.min(); } \
  SC S##_max_abs(const V &a) { return a.max_abs(); } \
  SC S##_min_abs(const V &a) { return a.min_abs(); } \
  SC S##_mean(const V &a) { return a.mean(); } \
  SC S##_mean_abs(const V &a) { return a.mean_abs(); } \
  void S##_minimize(V &a, const V &b) { a.minimize(b); } \
  void S##_maximize(V &a, const V &b) { a.maximize(b); } \
  bool S##_minimized(V &a, const V &b) { return a.minimized(b); } \
  bool S##_maximized(V &a, const V &b) { return a.maximized(b); } \
  V S##_vmin(const V &a, const V &b) { return a.min(b); } \
  V S##_vmax(const V &a, const V &b) { return a.max(b); } \
  V S##_vectorized(SC s) { return V::vectorized(s); } \
  V S##_from_scalar(SC s) { return V(s); } \
  void S##_swap(V &a, V &b) { swap(a, b); } \
  SC S##_at(const V &a, size_t i) { return a[i]; }
DRV(i3, Vec3i, int)
DRV(d3, Vec3d, double)
DRV(i2, Vec2i, int)
DRV(i4, Vec4i, int)
DRV(c3, Vec3c, signed char)
DRV(s3, Vec3s, short)
DRV(d2, Vec2d, double)
DRV(d4, Vec4d, double)
DRV(f3, Vec3f, float)
DRV(f2, Vec2f, float)
DRV(f4, Vec4f, float)

Vec3i i3_cross(const Vec3i &a, const Vec3i &b) { return a % b; }
Vec3i i3_cross_free(const Vec3i &a, const Vec3i &b) { return cross(a, b); }
Vec3i i3_cross_member(const Vec3i &a, const Vec3i &b) { return a.cross(b); }
auto c3_cross(const Vec3c &a, const Vec3c &b) { return a % b; }
auto c3_cross_free(const Vec3c &a, const Vec3c &b) { return cross(a, b); }
auto c3_cross_member(const Vec3c &a, const Vec3c &b) { return a.cross(b); }
auto s3_cross(const Vec3s &a, const Vec3s &b) { return a % b; }
auto s3_cross_free(const Vec3s &a, const Vec3s &b) { return cross(a, b); }
auto s3_cross_member(const Vec3s &a, const Vec3s &b) { return a.cross(b); }
Vec3d d3_cross(const Vec3d &a, const Vec3d &b) { return a % b; }
Vec3f f3_cross(const Vec3f &a, const Vec3f &b) { return a % b; }
Vec3i i3_make(int x, int y, int z) { return Vec3i(x, y, z); }
Vec3d d3_from_i3(const Vec3i &a) { return Vec3d(a); }
Vec3i i3_from_d3(const Vec3d &a) { return Vec3i(a); }
Vec3f f3_from_d3(const Vec3d &a) { return Vec3f(a); }
void d3_assign_i3(Vec3d &a, const Vec3i &b) { a = b; }
Vec3i i3_from_ptr(const int *p) { return Vec3i(p); }
Vec4d d4_homogenized(const Vec4d &a) { return a.homogenized(); }
double d3_norm(const Vec3d &a) { return a.norm(); }
double d3_length(const Vec3d &a) { return a.length(); }
Vec3d d3_normalized(const Vec3d &a) { return a.normalized(); }
void d3_normalize(Vec3d &a) { a.normalize(); }
void d3_normalize_cond(Vec3d &a) { a.normalize_cond(); }
} }
