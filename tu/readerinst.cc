// TU for C07/C18: the reader's member templates that exist only per mesh type (BinaryFileReader_impl.hh), with the
// repository's reader sources; instantiation drivers as in tu/vector.cc (one repository call each, nothing else).
#include <OpenVolumeMesh/Core/Handles.cc>
#include <OpenVolumeMesh/IO/detail/Decoder.cc>
#include <OpenVolumeMesh/IO/detail/BinaryIStream.cc>
#include <OpenVolumeMesh/IO/detail/ovmb_format.cc>
#include <OpenVolumeMesh/IO/detail/ovmb_codec.cc>
#include <OpenVolumeMesh/IO/enums.cc>
#include <OpenVolumeMesh/IO/detail/BinaryFileReader.cc>
#include <OpenVolumeMesh/IO/detail/BinaryFileReader_impl.hh>
#include <OpenVolumeMesh/Mesh/PolyhedralMesh.hh>
#include <OpenVolumeMesh/Mesh/TetrahedralMesh.hh>
#include <OpenVolumeMesh/Mesh/HexahedralMesh.hh>
namespace OpenVolumeMesh { namespace verif_drv {
using IO::detail::BinaryFileReader; using IO::ReadCompatibility;
ReadCompatibility compat_poly3d(BinaryFileReader &r) { return r.compatibility<GeometricPolyhedralMeshV3d>(); }
ReadCompatibility compat_tet3d(BinaryFileReader &r) { return r.compatibility<GeometricTetrahedralMeshV3d>(); }
ReadCompatibility compat_hex3d(BinaryFileReader &r) { return r.compatibility<GeometricHexahedralMeshV3d>(); }
ReadCompatibility compat_poly2d(BinaryFileReader &r) { return r.compatibility<GeometryKernel<Geometry::Vec2d, TopologyKernel>>(); }
} }
