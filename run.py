#!/usr/bin/env python3
"""Check driver: extract (cxx2c) -> weave contracts -> goto-cc -> goto-instrument --dfcc -> cbmc
(parallel, timeout + ulimit) -> parse -> (replay) -> evidence -> exit code.

exit 0: every obligation of the property discharged (or only KNOWN-FINDINGs)
exit 1: VIOLATION line(s) printed
exit 2: undecided (extraction failure, shape mismatch, tool error, timeout, bound too small)"""
import sys, os, re, json, time, hashlib, subprocess, shutil, glob, importlib, traceback
from concurrent.futures import ThreadPoolExecutor

ROOT = os.path.dirname(os.path.abspath(__file__))
sys.path.insert(0, os.path.join(ROOT, 'cxx2c'))
sys.path.insert(0, ROOT)
from astidx import Cxx2cError, Index, load_json_stream, dump_tu
from build import Unit, parse_spec

REPO = os.environ.get('OVM_REPO', '/repo')
BUILD = os.path.join(ROOT, 'build')
CBMC_FLAGS = ['--no-malloc-may-fail', '--bounds-check', '--pointer-check', '--pointer-overflow-check',
              '--signed-overflow-check', '--div-by-zero-check']
NPROC = int(os.environ.get('VERIF_JOBS', '16'))

class Ob:
    """one CBMC run = one obligation family (many CBMC properties)"""
    def __init__(self, id, props, tu, roots, harness, entry='harness', spec=None, enforce=None, replace=(),
                 tier='U', unwind=None, unwindset=None, defines=None, cfg='kernel', timeout=300, quick=True,
                 covers=0, expect_loops=(), note='', flags=(), bounds=None, loop_contracts=True, object_bits=12,
                 expected_fail=(), kissat=False, spec_text='', includes=(), copies=(), stubs=None, inline_vec=False, adaptive_unwind=True, inits=None, prebuild_shape=None, unwind_start=3, quick_for=None, preamble='', mem_gb=None, circ_class='TopologyKernel', preamble_after='', py_check=None, prebuild_call=None, enum=None, cfg_edit=None):
        self.id = id; self.props = props; self.tu = tu; self.roots = roots; self.harness = harness; self.entry = entry
        self.mesh_harness = None
        if not isinstance(harness, str):
            self.mesh_harness = harness; self.harness = harness.cbmc_text()
        self.spec = spec; self.enforce = enforce; self.replace = list(replace); self.tier = tier
        self.unwind = unwind; self.unwindset = unwindset; self.defines = defines or {}; self.cfg = cfg
        self.timeout = timeout; self.quick = quick; self.covers = covers; self.expect_loops = expect_loops
        self.note = note; self.flags = list(flags); self.bounds = bounds or {}; self.loop_contracts = loop_contracts
        self.object_bits = object_bits; self.expected_fail = expected_fail; self.kissat = kissat; self.spec_text = spec_text; self.includes = list(includes); self.copies = list(copies); self.stubs = stubs or {}; self.inline_vec = inline_vec; self.adaptive_unwind = adaptive_unwind; self.inits = inits or {}; self.prebuild_shape = prebuild_shape; self.unwind_start = unwind_start; self.quick_for = quick_for; self.preamble = preamble; self.mem_gb = mem_gb; self.circ_class = circ_class; self.preamble_after = preamble_after; self.py_check = py_check; self.prebuild_call = prebuild_call; self.enum = enum; self.cfg_edit = cfg_edit

# ---------------------------------------------------------------------------------------------- AST cache
TUS = {'kernel': 'tu/kernel.cc', 'tethex': 'tu/tethex.cc', 'ovmb': 'tu/ovmb.cc', 'vector': 'tu/vector.cc', 'props': 'tu/props.cc', 'readerinst': 'tu/readerinst.cc'}
_index_cache = {}

def src_hash():
    h = hashlib.sha256()
    for root, dirs, files in sorted(os.walk(os.path.join(REPO, 'src'))):
        dirs.sort()
        for f in sorted(files):
            p = os.path.join(root, f)
            h.update(p.encode()); h.update(open(p, 'rb').read())
    for f in sorted(glob.glob(os.path.join(ROOT, 'tu', '*'))):
        h.update(open(f, 'rb').read())
    return h.hexdigest()[:20]

def ensure_inc():
    """generated Config headers: use /repo/_build/src if present, else write stand-ins"""
    gen = os.path.join(REPO, '_build', 'src', 'OpenVolumeMesh', 'Config')
    inc = os.path.join(BUILD, 'inc', 'OpenVolumeMesh', 'Config')
    os.makedirs(inc, exist_ok=True)
    if os.path.isdir(gen):
        for f in os.listdir(gen):
            shutil.copy(os.path.join(gen, f), os.path.join(inc, f))
    else:
        open(os.path.join(inc, 'Export.hh'), 'w').write('#pragma once\n#define OVM_EXPORT\n#define OVM_NO_EXPORT\n#define OVM_DEPRECATED\n')
        open(os.path.join(inc, 'Version.hh'), 'w').write('#pragma once\n#define OVM_VERSION_MAJOR 3\n#define OVM_VERSION_MINOR 3\n#define OVM_VERSION_PATCH 0\n')
        open(os.path.join(inc, 'DeprecationConfig.hh'), 'w').write('#pragma once\n')

def get_index(tu):
    if tu in _index_cache: return _index_cache[tu]
    os.makedirs(os.path.join(BUILD, 'ast'), exist_ok=True)
    ensure_inc()
    sh = src_hash()
    tag = tu if REPO == '/repo' else tu + '@' + hashlib.sha256(REPO.encode()).hexdigest()[:6]      # scratch copies of the repository keep their own dumps
    out = os.path.join(BUILD, 'ast', '%s.%s.json' % (tag, sh))
    if not os.path.exists(out):
        for old in glob.glob(os.path.join(BUILD, 'ast', tag + '.*.json')): os.remove(old)
        dump_tu(os.path.join(ROOT, TUS[tu]), out + '.tmp', extra_flags=['-I' + os.path.join(BUILD, 'inc')])
        os.rename(out + '.tmp', out)
    ix = Index(load_json_stream(out))
    _index_cache[tu] = ix
    return ix

# ---------------------------------------------------------------------------------------------- configs
RM = 'OpenVolumeMesh::ResourceManager'
GHOSTS = ['ghost_v', 'ghost_e', 'ghost_he', 'ghost_f', 'ghost_hf', 'ghost_c']
def cfg_named(name):
    if name in ('kernel', 'tet', 'hex'):
        dyn = {'kernel': 'OpenVolumeMesh::TopologyKernel', 'tet': 'OpenVolumeMesh::TetrahedralMeshTopologyKernel',
               'hex': 'OpenVolumeMesh::HexahedralMeshTopologyKernel'}[name]
        return dict(dynamic_type=dyn,
                    drop_fields={RM: ['persistent_props_', 'storage_trackers_']},
                    extra_fields={RM: [(g, 'std::vector<int>') for g in GHOSTS]},
                    stubs={RM + '::' + k: 1 for k in ['resize_props', 'reserve_props', 'entity_deleted', 'swap_property_elements',
                           'copy_property_elements', 'clear_all_props', 'clear_props']})
    if name == 'plain':
        return {}
    if name == 'props':
        return dict(drop_bases=['std::enable_shared_from_this', 'OpenVolumeMesh::detail::Tracked'], drop_fields={'OpenVolumeMesh::PropertyStorageBase': ['name_', 'internal_type_name_', 'entity_type_', 'persistent_', 'shared_'], 'OpenVolumeMesh::detail::Tracked<OpenVolumeMesh::PropertyStorageBase>': ['tracker_']})
    if name == 'ovmb':
        BR = 'OpenVolumeMesh::IO::detail::BinaryFileReader'
        k = cfg_named('kernel')
        k['drop_fields'][BR] = ['geometry_reader_', 'prop_codecs_', 'props_']
        k['drop_fields']['OpenVolumeMesh::IO::detail::BinaryFileWriter'] = ['geometry_writer_', 'prop_codecs_', 'props_', 'ostream_', 'header_pos_', 'error_msg_', 'options_']
        k['exceptions'] = True
        return k
    raise Cxx2cError('unknown config ' + name)

GH = {'Entity_Vertex': 'ghost_v', 'Entity_Edge': 'ghost_e', 'Entity_HalfEdge': 'ghost_he', 'Entity_Face': 'ghost_f',
      'Entity_HalfFace': 'ghost_hf', 'Entity_Cell': 'ghost_c', 'VH': 'ghost_v', 'EH': 'ghost_e', 'HEH': 'ghost_he',
      'FH': 'ghost_f', 'HFH': 'ghost_hf', 'CH': 'ghost_c'}

def ghost_stub_bodies(unit, ob=None):
    """bodies of the stubbed ResourceManager template-level notifications (ghost property arrays, spec/wf.h)"""
    out = []
    for cn, proto in unit.em.stub_protos.items():
        m = re.match(r'^ResourceManager__(resize_props|reserve_props|entity_deleted|swap_property_elements|copy_property_elements|clear_props)_(\w+)$', cn)
        norm = lambda x: re.sub(r'_+', '_', re.sub(r'[^A-Za-z0-9_]', '_', x.replace('OpenVolumeMesh::', '')))
        custom = [b for q, b in (ob.stubs.items() if ob else []) if norm(q) == norm(cn) or norm(cn).startswith(norm(q) + '_')]
        exact = [b for q, b in (ob.stubs.items() if ob else []) if norm(q) == norm(cn)]
        if exact or custom:
            out.append(proto + '\n' + (exact or custom)[0]); continue
        if cn == 'ResourceManager__clear_all_props':
            out.append(proto + ' { /* properties become private; storages stay tracked */ }'); continue
        if not m: raise Cxx2cError('no ghost body for stub ' + cn)
        op, tag = m.group(1), m.group(2)
        if tag == 'Entity_Mesh' or tag == 'MH': out.append(proto + ' { }'); continue
        g = 'self->' + GH[tag]
        if op == 'resize_props': out.append(proto + ' { ghost_resize(&%s, _n); }' % g)
        elif op == 'reserve_props': out.append(proto + ' { }')
        elif op == 'clear_props': out.append(proto + ' { }')
        elif op == 'entity_deleted': out.append(proto + ' { ghost_erase(&%s, _h.idx_); }' % g)
        elif op == 'swap_property_elements': out.append(proto + ' { ghost_swap(&%s, _idx_a.idx_, _idx_b.idx_); }' % g)
        elif op == 'copy_property_elements': out.append(proto + ' { ghost_copy(&%s, _idx_a.idx_, _idx_b.idx_); }' % g)
    return '\n'.join(out) + '\n'

# ---------------------------------------------------------------------------------------------- one obligation
def _copy_ob(ob):
    import copy
    return copy.copy(ob)

def sh(cmd, timeout, log, mem_gb=8, cwd=None):
    pre = 'ulimit -v %d; ' % (mem_gb * 1024 * 1024)
    t0 = time.time()
    try:
        r = subprocess.run(['bash', '-c', pre + 'exec ' + ' '.join("'%s'" % c.replace("'", "'\\''") for c in cmd)],
                           stdout=subprocess.PIPE, stderr=subprocess.STDOUT, timeout=timeout, cwd=cwd)
        out = r.stdout.decode(errors='replace'); rc = r.returncode
    except subprocess.TimeoutExpired as e:
        out = (e.stdout or b'').decode(errors='replace') + '\n*** TIMEOUT after %ds\n' % timeout; rc = -9
    with open(log, 'a') as f:
        f.write('$ ' + ' '.join(cmd) + '\n' + out + '\n')
    return rc, out, time.time() - t0

RES_RE = re.compile(r'^\[([^\]]+)\] (?:line (\d+) )?(.*): (SUCCESS|FAILURE|UNKNOWN|ERROR)\s*$', re.M)
COVER_RE = re.compile(r'^\[([^\]]+)\] (?:file \S+ )?(?:line (\d+) )?(.*): (SATISFIED|FAILED)\s*$', re.M)

def specs_text(names):
    if not names: return ''
    if isinstance(names, str): names = [names]
    return '\n'.join(open(os.path.join(ROOT, 'contracts', n)).read() for n in names)

import threading
_HEAVY_LOCK = threading.Lock()
def run_ob(ob, tier, workdir):
    """returns result dict; families with a large memory limit run one at a time within a check"""
    if ob.mem_gb and ob.mem_gb >= 24:
        with _HEAVY_LOCK:
            return _run_ob(ob, tier, workdir)
    return _run_ob(ob, tier, workdir)

def _run_ob(ob, tier, workdir):
    """returns result dict"""
    res = dict(id=ob.id, tier=ob.tier, status='error', reason='', results=[], solver_s=0.0, wall_s=0.0, functions=[],
               covers=(0, 0), bounds=ob.bounds, note=ob.note, log=None, loops=0, enforce=ob.enforce, replace=ob.replace)
    t0 = time.time()
    d = os.path.join(workdir, re.sub(r'[^A-Za-z0-9_.-]', '_', ob.id))
    shutil.rmtree(d, ignore_errors=True); os.makedirs(d)
    log = os.path.join(d, 'log.txt'); res['log'] = log
    if ob.py_check is not None:
        # static supporting fact computed from the same clang AST (no solver): tier 'S', never counted as proved
        try:
            ob.py_check(ob, res, get_index(ob.tu))
        except Exception as e:
            res['status'] = 'undecided'; res['reason'] = 'static scan failed: ' + repr(e)
        open(log, 'w').write(json.dumps(res['results'], indent=1))
        res['fails'] = [x for x in res['results'] if x[2] == 'FAILURE'] if res['status'] == 'fail' else []
        res['wall_s'] = time.time() - t0
        return res
    try:
        ix = get_index(ob.tu)
        contracts = parse_spec(specs_text(ob.spec) + '\n' + ob.spec_text)
        cfg = cfg_named(ob.cfg)
        if ob.cfg_edit: ob.cfg_edit(cfg)
        cfg['prelude'] = 'extern int g_k, g_j; extern unsigned long g_u;\n'
        cfg['vstd_inline'] = ob.inline_vec
        cfg['stubs'] = dict(cfg.get('stubs', {}))
        for q in ob.stubs: cfg['stubs'][q.split('__')[0]] = 1       # a key may carry an overload suffix (used to pick the body)
        unit = Unit(ix, contracts=contracts, cfg=cfg)
        for r in ob.roots:
            if isinstance(r, str): unit.want(r, all_overloads=True)
            else: unit.want(r[0], sig=r[1])
        from ctypes_ import parse_type
        def _helpers(em):
            for ck in ob.copies:
                em.fc = None
                em.copy_helper(em.canon(parse_type(ck)))
                em.deq_helper(em.canon(parse_type(ck)), shallow=True)      # generated equality over EVERY field of the extracted struct (containers by size): frame checks
        _helpers(unit.em)
        unit.extra_requests = getattr(unit, 'extra_requests', []) + [_helpers]      # the second (may-throw) emission pass starts from a fresh emitter
        # circulator placeholders in the harness: @TYPE(f)@ @INC(f)@ @DEC(f)@ for a TopologyKernel factory function f
        circ = {}
        for mm in set(re.findall(r'@(?:TYPE|INC|DEC)\((\w+)\)@', ob.harness)):
            from build import find_funcs
            fd = find_funcs(ix, 'OpenVolumeMesh::%s::%s' % (ob.circ_class, mm))
            if len(fd) != 1: raise Cxx2cError('must-fire: circulator factory %s not found' % mm)
            fcn = unit.em.request_func(fd[0]); unit.roots[fcn] = fd[0]
            rt = unit.em.ret_type_of(fd[0])
            key = rt.key()
            names = {}
            for opn, tag in (('operator++', 'INC'), ('operator--', 'DEC')):
                cands = [f for f in find_funcs(ix, key + '::' + opn) if len(unit.em.params_of(f)) == 0]
                if len(cands) != 1: raise Cxx2cError('must-fire: %s of %s: %d candidates' % (opn, key, len(cands)))
                names[tag] = unit.em.request_func(cands[0]); unit.roots[names[tag]] = cands[0]
            names['TYPE'] = unit.em.ctype(rt); names['FACTORY'] = fcn
            circ[mm] = names
        if circ:
            ob = _copy_ob(ob)
            ob.harness = re.sub(r'@(TYPE|INC|DEC)\((\w+)\)@', lambda m2: circ[m2.group(2)][m2.group(1)], ob.harness)
        init_text = ''
        if ob.inits:
            from emit import FuncCtx
            for fname, tkey in ob.inits.items():
                unit.em.fc = FuncCtx(fname); unit.em.fc.root = {}; unit.em.fc.self_t = None
                tt = unit.em.canon(parse_type(tkey))
                body = unit.em.with_temps(lambda: [unit.em.default_init_stmt(tt, '(*p)')])
                init_text += 'static void %s(%s *p) { %s }\n' % (fname, unit.em.ctype(tt), ' '.join(body))
                unit.em.fc = None
        ctext = unit.generate()
        # contracts must have been woven: every named function present
        for cn in ([ob.enforce] if ob.enforce else []) + ob.replace:
            if cn not in unit.em.func_text: raise Cxx2cError('must-fire: %s not among the extracted functions' % cn)
            if cn not in contracts: raise Cxx2cError('no contract for %s' % cn)
        for cn, fn in unit.roots.items():
            info = unit.em.func_info[cn]
            res['functions'].append(dict(cxx=info['qual'], c=cn, file=info['loc'], sha=unit.function_sha(cn)))
        res['n_extracted'] = len(unit.em.func_text)
        res['ptr_refs'] = sorted(set('%s@%s' % pr for cn, i in unit.em.func_info.items() for pr in i.get('ptr_refs', [])))
        open(os.path.join(d, 'gen.c'), 'w').write(ctext)
        hpath = os.path.join(d, 'h.c')
        defs = ''.join('#define %s %s\n' % kv for kv in ob.defines.items()) + ('#define VSTD_INLINE 1\n' if ob.inline_vec else '')
        stubs = ghost_stub_bodies(unit, ob) if unit.em.stub_protos else ''
        inc = ''.join('#include "%s/spec/%s"\n' % (ROOT, h) for h in ob.includes)
        head = defs + '#include "gen.c"\nint g_k, g_j; unsigned long g_u;\n#include "%s/spec/common.h"\n' % ROOT + ob.preamble + init_text + inc + stubs + ob.preamble_after
        shape_w = ''
        if ob.prebuild_shape is not None:
            # the shape is constructed by running the extracted construction code natively; CBMC starts from its witness
            pb = os.path.join(d, 'prebuild.c')
            open(pb, 'w').write('#include <stdio.h>\n#include <stdlib.h>\n#define __CPROVER_assert(c, m) do { if (!(c)) { fprintf(stderr, "prebuild assertion failed: %s\\n", m); exit(3); } } while (0)\n#define __CPROVER_assume(c) ((void)0)\n'
                              'int nondet_int(void) { return 0; } unsigned long nondet_ulong(void) { return 0; } _Bool nondet_bool(void) { return 0; }\n' + head +
                              'int main(void) { TK m; ' + (ob.prebuild_call or 'shape_build(&m, %d);' % ob.prebuild_shape) + ' if (!wf(&m) || ovm_exc) { fprintf(stderr, "shape not well-formed\\n"); return 4; } witness(&m, 0, 0, 0, 0); for (unsigned long i = 0; i < WN; i++) printf("%d,", ovm_w[i]); printf("\\n"); return 0; }\n')
            rcp, outp, _ = sh(['gcc', '-O0', '-w', '-I', ROOT, 'prebuild.c', '-o', 'prebuild'], 300, log, cwd=d)
            if rcp != 0: raise Cxx2cError('prebuild of shape failed to compile: ' + outp[-500:])
            pr = subprocess.run([os.path.join(d, 'prebuild')], stdout=subprocess.PIPE, stderr=subprocess.PIPE, timeout=60)
            if pr.returncode != 0: raise Cxx2cError('native construction of the shape failed: ' + pr.stderr.decode()[-300:])
            shape_w = '#define SHAPE_W ' + pr.stdout.decode().strip().rstrip(',') + '\n'
        open(hpath, 'w').write(shape_w + head + ob.harness + '\n')
    except Cxx2cError as e:
        res['status'] = 'undecided'; res['reason'] = 'extraction: ' + str(e)
        open(log, 'a').write(str(e) + '\n'); res['wall_s'] = time.time() - t0
        return res
    except Exception as e:
        res['status'] = 'undecided'; res['reason'] = 'internal: ' + repr(e) + traceback.format_exc()
        open(log, 'a').write(res['reason']); res['wall_s'] = time.time() - t0
        return res
    # content-addressed result cache: identical formula (generated text + harness + flags + tool version) is solved once per session
    key = hashlib.sha256(('\0'.join([ctext, open(hpath).read(), repr((ob.enforce, ob.replace, ob.loop_contracts, ob.unwind, ob.unwindset, ob.flags, ob.object_bits, ob.kissat, ob.covers, CBMC_FLAGS, [(n, list(v)) for n, v in (ob.enum or [])])), cbmc_version()] + [open(os.path.join(ROOT, 'spec', h)).read() for h in ['common.h'] + ob.includes])).encode()).hexdigest()
    cpath = os.path.join(BUILD, 'cache', key + '.json')
    if os.path.exists(cpath) and not os.environ.get('VERIF_NOCACHE'):
        c = json.load(open(cpath))
        if c.get('status') == 'pass':
            res.update(c); res['cached'] = True; res['log'] = log; res['results'] = [tuple(x) for x in c['results']]
            if 'fails' in c: res['fails'] = [tuple(x) for x in c['fails']]
            res['covers'] = tuple(c.get('covers', (0, 0)))
            open(log, 'a').write('result taken from cache %s\n' % cpath)
            res['wall_s'] = time.time() - t0
            return res
    res['cache_path'] = cpath
    import itertools
    combos = list(itertools.product(*[list(v) for _, v in ob.enum])) if ob.enum else [()]
    enum_defs = lambda combo: ['-D%s=%s' % (nv[0], c) for nv, c in zip(ob.enum or [], combo)]
    rc, out, _ = sh(['goto-cc', '--function', ob.entry, 'h.c', '-o', 'a.gb', '-I', ROOT] + enum_defs(combos[0]), 120, log, cwd=d)
    if rc != 0:
        res['status'] = 'undecided'; res['reason'] = 'goto-cc failed: ' + out[-800:]; res['wall_s'] = time.time() - t0; return res
    binp = 'a.gb'
    if ob.enforce or ob.replace:
        cmd = ['goto-instrument', '--dfcc', ob.entry]
        if ob.enforce: cmd += ['--enforce-contract', ob.enforce]
        for r in ob.replace: cmd += ['--replace-call-with-contract', r]
        if ob.loop_contracts: cmd += ['--apply-loop-contracts']
        cmd += ['a.gb', 'b.gb']
        rc, out, _ = sh(cmd, 300, log, cwd=d)
        if rc != 0:
            res['status'] = 'undecided'; res['reason'] = 'goto-instrument failed: ' + out[-800:]; res['wall_s'] = time.time() - t0; return res
        binp = 'b.gb'
    cb0 = ['cbmc', binp] + [f for f in CBMC_FLAGS if not f.startswith('-no:') and ('-no:' + f) not in ob.flags] + [f for f in ob.flags if not f.startswith('-no:')]
    if ob.object_bits: cb0 += ['--object-bits', str(ob.object_bits)]
    if ob.kissat: cb0 += ['--external-sat-solver', 'kissat']
    to = max(ob.timeout, 900)      # per CBMC call; generous on purpose: a time-out is exit 2 (undecided), never a violation, but it still breaks a check
    memgb = ob.mem_gb or int(os.environ.get('VERIF_MEM_GB', '12'))
    uset = {}
    if ob.unwindset:
        for kv in ob.unwindset.split(','): uset[kv.rsplit(':', 1)[0]] = int(kv.rsplit(':', 1)[1])
    dt = 0.0
    if ob.unwind is not None and ob.adaptive_unwind:
        # adaptive unwinding: start low; every loop whose unwinding assertion fails gets a larger bound, up to ob.unwind.
        # (paths beyond a failed unwinding assertion are cut, so early rounds are cheap; the final round has none failing)
        U0 = min(ob.unwind_start, ob.unwind)
        # loops of specification/harness functions have constant bounds: give them the maximum at once
        rcl, outl, _ = sh(['cbmc', binp, '--show-loops'], 120, log, cwd=d)
        extracted = set(unit.em.func_text) | set(unit.em.stub_protos)
        for mm in re.finditer(r'^Loop ([^\s:]+)\.(\d+):', outl, re.M):
            fn = mm.group(1)
            if (fn not in extracted and not re.match(r'^(vec_|set_|vit_|rvit_|sit_|rsit_|vstd_|arr_|pair_|__CPROVER)', fn)) or re.search(r'(_copy|__copy)$', fn):
                uset.setdefault('%s.%s' % (fn, mm.group(2)), ob.unwind)
        for rnd in range(20):
            cb = cb0 + ['--unwind', str(U0), '--unwinding-assertions'] + (['--unwindset', ','.join('%s:%d' % kv for kv in sorted(uset.items()))] if uset else [])
            rc, out, d1 = sh(cb, to, log, cwd=d, mem_gb=memgb); dt += d1
            bad = [m.group(1) for m in re.finditer(r'^\[([^\]]+\.unwind\.\d+)\] .*unwinding assertion loop \d+: FAILURE', out, re.M)]
            if not bad or 'TIMEOUT' in out: break
            grown = False
            for b in bad:
                fn, n = b.rsplit('.unwind.', 1); lid = '%s.%s' % (fn, n)
                cur = uset.get(lid, U0)
                if cur < ob.unwind:
                    uset[lid] = min(ob.unwind, cur + 2); grown = True
            if not grown: break
        res['unwindset'] = dict(uset)
        ob_unwind_flags = ['--unwind', str(U0)] + (['--unwindset', ','.join('%s:%d' % kv for kv in sorted(uset.items()))] if uset else [])
    else:
        cb = list(cb0)
        ob_unwind_flags = []
        if ob.unwind is not None: ob_unwind_flags += ['--unwind', str(ob.unwind)]
        if uset: ob_unwind_flags += ['--unwindset', ','.join('%s:%d' % kv for kv in sorted(uset.items()))]
        cb += ob_unwind_flags + (['--unwinding-assertions'] if ob_unwind_flags else [])
        if True:
            rc, out, dt = sh(cb, to, log, cwd=d, mem_gb=memgb)
    if ob.enum and ('VERIFICATION SUCCESSFUL' in out):
        # enumeration: one CBMC run per combination of the -D macros (each run decides a concrete instance), all with the
        # unwinding found for the first instance; results are merged per property name, a property fails if it fails in
        # any instance; stops at the first failing instance (whose binary stays in place for the trace)
        agg = {}; verdict = 'VERIFICATION SUCCESSFUL'; nrun = 1
        for (nm, _l, desc, stt) in [(m.group(1), 0, m.group(3), m.group(4)) for m in RES_RE.finditer(out)]: agg[nm] = (nm, desc, stt)
        cbE = cb0 + ob_unwind_flags + (['--unwinding-assertions'] if ob_unwind_flags else [])
        for combo in combos[1:]:
            rc, outE, _ = sh(['goto-cc', '--function', ob.entry, 'h.c', '-o', 'a.gb', '-I', ROOT] + enum_defs(combo), 120, log, cwd=d)
            if rc != 0: verdict = 'goto-cc failed for %s' % (combo,); break
            for _rnd in range(40):
                rc, outE, d1 = sh(cbE, to, log, cwd=d, mem_gb=memgb); dt += d1
                badE = [m.group(1) for m in re.finditer(r'^\[([^\]]+\.unwind\.\d+)\] .*unwinding assertion loop \d+: FAILURE', outE, re.M)]
                if not (badE and ob.adaptive_unwind and ob.unwind is not None): break
                grownE = False
                for b in badE:       # this instance takes a path with longer loops: raise those bounds (kept for the following instances)
                    fn, nn = b.rsplit('.unwind.', 1); lid = '%s.%s' % (fn, nn); cur = uset.get(lid, U0)
                    if cur < ob.unwind: uset[lid] = min(ob.unwind, max(cur + 2, 2 * cur)); grownE = True
                if not grownE: break
                ob_unwind_flags = ['--unwind', str(U0)] + ['--unwindset', ','.join('%s:%d' % kv for kv in sorted(uset.items()))]
                cbE = cb0 + ob_unwind_flags + ['--unwinding-assertions']
            nrun += 1
            rs = [(m.group(1), m.group(3), m.group(4)) for m in RES_RE.finditer(outE)]
            if not rs or ('VERIFICATION SUCCESSFUL' not in outE and 'VERIFICATION FAILED' not in outE):
                verdict = 'no verdict for instance %s' % (combo,); break
            for (nm, desc, stt) in rs:
                if nm not in agg or (stt != 'SUCCESS' and agg[nm][2] == 'SUCCESS'):
                    agg[nm] = (nm, desc + ('' if stt == 'SUCCESS' else ' [instance %s]' % ' '.join(enum_defs(combo))), stt)
            if 'VERIFICATION FAILED' in outE: verdict = 'VERIFICATION FAILED'; break
        res['enumerated_instances'] = nrun
        out = verdict + '\n' + '\n'.join('[%s] line 0 %s: %s' % r for r in agg.values()) + '\n'
        rc = 0
    elif ob.enum:
        res['enumerated_instances'] = 1
    res['unwind_flags'] = ob_unwind_flags
    res['solver_s'] = dt
    results = [(m.group(1), m.group(3), m.group(4)) for m in RES_RE.finditer(out)]
    res['results'] = results
    res['loops'] = len([r for r in results if '.loop_invariant_step' in r[0]])
    if 'TIMEOUT' in out and rc == -9:
        res['status'] = 'undecided'; res['reason'] = 'timeout after %ds' % to
    elif re.search(r'ignoring (forall|exists)', out):
        res['status'] = 'undecided'; res['reason'] = 'quantifier ignored by back end'
    elif 'VERIFICATION SUCCESSFUL' in out and results and all(r[2] == 'SUCCESS' for r in results):
        res['status'] = 'pass'
    elif 'VERIFICATION FAILED' in out:
        fails = [r for r in results if r[2] != 'SUCCESS']
        res['fails'] = fails
        if any('vstd-capacity' in r[1] or 'unwinding assertion' in r[1] or 'recursion unwinding' in r[1] for r in fails) :
            res['status'] = 'undecided'; res['reason'] = 'bound too small: ' + '; '.join(r[0] for r in fails[:5])
        else:
            res['status'] = 'fail'
    else:
        res['status'] = 'undecided'; res['reason'] = 'cbmc gave no verdict (rc=%s): %s' % (rc, out[-600:])
    # vacuity: loop contract obligations present where expected
    if res['status'] == 'pass' and ob.loop_contracts and ob.enforce:
        want = sum(1 for cn in [ob.enforce] for o in contracts.get(cn, {}).get('loops', {}))
        if want and res['loops'] == 0:
            res['status'] = 'undecided'; res['reason'] = 'loop contract silently dropped (no loop_invariant_step obligations)'
    # vacuity: cover points (build with -DCOVER_RUN: each COVER(c) becomes assert(!c) and must FAIL, i.e. be reachable)
    if res['status'] == 'pass' and ob.covers:
        rc2, out2, _ = sh(['goto-cc', '--function', ob.entry, '-DCOVER_RUN', 'h.c', '-o', 'c.gb', '-I', ROOT] + enum_defs(combos[0]), 120, log, cwd=d)
        cb2 = ['cbmc', 'c.gb', '--no-malloc-may-fail', '--no-standard-checks'] + res.get('unwind_flags', [])
        if ob.object_bits: cb2 += ['--object-bits', str(ob.object_bits)]
        rc2, out2, dt2 = sh(cb2, to, log, cwd=d)
        cov = [(m.group(1), m.group(3), m.group(4)) for m in RES_RE.finditer(out2) if m.group(3).startswith('COVER ')]
        sat = len([c for c in cov if c[2] == 'FAILURE'])
        res['covers'] = (len(cov), sat)
        res['solver_s'] += dt2
        if len(cov) < ob.covers or sat < len(cov):
            res['status'] = 'undecided'; res['reason'] = 'vacuity: %d of %d cover points reachable (expected %d)' % (sat, len(cov), ob.covers)
    res['wall_s'] = time.time() - t0
    if res['status'] == 'pass':
        os.makedirs(os.path.dirname(res['cache_path']), exist_ok=True)
        json.dump({k: v for k, v in res.items() if k not in ('log', 'cache_path')}, open(res['cache_path'], 'w'))
    return res

_cbmc_v = []
def cbmc_version():
    if not _cbmc_v: _cbmc_v.append(subprocess.run(['cbmc', '--version'], stdout=subprocess.PIPE).stdout.decode().strip())
    return _cbmc_v[0]

# ---------------------------------------------------------------------------------------------- properties
def load_obligations(prop, tier):
    obs = []
    for f in sorted(glob.glob(os.path.join(ROOT, 'obligations', '*.py'))):
        name = os.path.basename(f)[:-3]
        if name.startswith('_'): continue
        mod = importlib.import_module('obligations.' + name)
        for ob in mod.obligations():
            qf = ob.quick_for if ob.quick_for is not None else (ob.props if ob.quick else [])
            if prop in ob.props and (tier == 'thorough' or prop in qf):
                obs.append(ob)
    return obs

def known_findings():
    out = []
    p = os.path.join(ROOT, 'known_findings.txt')
    if os.path.exists(p):
        for l in open(p):
            l = l.strip()
            if l.startswith('finding:'):
                d = dict(re.findall(r'(\w+)=("[^"]*"|\S+)', l))
                out.append({k: v.strip('"') for k, v in d.items()})
    return out

def trusted_base():
    return ['clang 14 JSON AST is the semantics of the C++ source',
            'cxx2c translation rules (cxx2c/*.py): classes->structs with flattened bases, references->pointers, value semantics by deep copy, exceptions->ovm_exc flag, asserts compiled out (NDEBUG as shipped)',
            'vstd: C model of std::vector/set/pair/array/algorithms with bounds assertions (cxx2c/stdmap.py); destructors and deallocation not represented',
            'vstd also models std::bitset<N<=64> (unsigned long), std::rotate/sort/unique/find/... and the pointer-range algorithms used by VectorT (equal, fill, accumulate, inner_product, lexicographical_compare, min/max_element, transform, copy_n) following the standard\'s definitions',
            'CBMC 6.11.0 goto-cc/goto-instrument(DFCC)/cbmc is sound on the emitted C subset; back end per obligation family as listed (built-in SAT, z3 4.8.12, cvc5 1.0 with --fpa)',
            'instantiation drivers (tu/vector.cc, tu/props.cc): one-line functions calling one repository operation each; they are the entry points, the repository templates are the bodies proved',
            'functions replaced by a recording/contract stub in a family are listed per family (contract_stubs); their own behaviour is decided only where another family enforces it',
            'machine arithmetic: integer vectors are proved inside ranges that exclude signed overflow; IEEE doubles bit-exactly (NaN = NaN) in the operation order of the source',
            'allocation never fails (--no-malloc-may-fail); int is 32-bit, long 64-bit two\'s complement',
            'ResourceManager property notifications are stubs driving ghost property arrays (harness side)']

def check(prop, tier):
    t0 = time.time()
    seed = int(os.environ.get('VERIF_SEED', '0') or 0)
    obs = load_obligations(prop, tier)
    workdir = os.path.join(BUILD, 'run', prop)
    os.makedirs(workdir, exist_ok=True)
    os.makedirs(os.path.join(ROOT, 'evidence'), exist_ok=True)
    if not obs:
        print('no obligations registered for', prop); return 2
    # warm the AST cache serially (one clang run per TU)
    try:
        for tu in sorted(set(o.tu for o in obs)): get_index(tu)
    except Cxx2cError as e:
        print('UNDECIDED property=%s reason=%s' % (prop, e)); write_evidence(prop, tier, seed, [], time.time() - t0, undecided=str(e)); return 2
    with ThreadPoolExecutor(max_workers=NPROC) as ex:
        results = list(ex.map(lambda o: run_ob(o, tier, workdir), obs))
    kf = known_findings()
    violations = []; undecided = []; known = []
    for ob, r in zip(obs, results):
        if r['status'] == 'fail':
            for (name, desc, st) in r['fails']:
                oname = '%s:%s' % (ob.id, name)
                m = [k for k in kf if k.get('property') == prop and k.get('obligation') == oname]
                if m: known.append((oname, m[0]))
                else: violations.append((ob, r, name, desc))
        elif r['status'] != 'pass':
            undecided.append((ob, r))
    for oname, k in known:
        print('KNOWN-FINDING: property=%s obligation=%s %s' % (prop, oname, k.get('what', '')))
    rc = 0
    real_viol = 0; nviol_suppressed = 0
    if violations:
        rc = 1
        os.makedirs(os.path.join(ROOT, 'replay'), exist_ok=True)
        seen = set()
        for ob, r, name, desc in violations:
            if ob.id in seen: continue
            seen.add(ob.id)
            path = os.path.join(ROOT, 'replay', 'out', '%s-%s.json' % (prop, re.sub(r'[^A-Za-z0-9_.-]', '_', ob.id)))
            os.makedirs(os.path.dirname(path), exist_ok=True)
            rep = make_replay(ob, r, path, prop)
            if rep == 'discrepancy':
                undecided.append((ob, dict(r, reason='counterexample does not reproduce on the real library (see %s): tool/extraction discrepancy, not reported as violation' % path)))
                nviol_suppressed += 1
                continue
            real_viol += 1
            print('VIOLATION property=%s replay=%s obligation=%s:%s (%s)%s' % (prop, path, ob.id, name, desc, '' if rep is True else ' no-failing-input-found'))
        if real_viol == 0: rc = 0
    if undecided and rc == 0:
        rc = 2
    for ob, r in undecided:
        print('UNDECIDED property=%s obligation=%s reason=%s' % (prop, ob.id, r['reason'][:300].replace('\n', ' ')))
    write_evidence(prop, tier, seed, list(zip(obs, results)), time.time() - t0, nviol=real_viol, known=[k[0] for k in known])
    npass = len([r for r in results if r['status'] == 'pass'])
    print('property %s tier %s: %d obligation families, %d passed, %d failed, %d undecided, %.1fs' % (
        prop, tier, len(obs), npass, len([r for r in results if r['status'] == 'fail']), len(undecided), time.time() - t0))
    return rc

def make_replay(ob, r, path, prop):
    """write the replay file: failed obligations + CBMC trace; returns True when a native replay confirmed"""
    if ob.py_check is not None:
        json.dump(dict(property=prop, obligation=ob.id, failed=[dict(name=n, description=ds) for (n, ds, st) in r.get('fails', [])], tier=ob.tier,
                       verifier_output=r.get('results'), native_replay=None, note='static fact from the clang AST: no input to replay'), open(path, 'w'), indent=1)
        return False
    d = os.path.dirname(r['log'])
    binp = 'b.gb' if os.path.exists(os.path.join(d, 'b.gb')) else 'a.gb'
    cb = ['cbmc', binp] + [f for f in CBMC_FLAGS if ('-no:' + f) not in ob.flags] + [f for f in ob.flags if not f.startswith('-no:')] + ['--trace', '--stop-on-fail'] + r.get('unwind_flags', [])
    if ob.object_bits: cb += ['--object-bits', str(ob.object_bits)]
    rc, out, dt = sh(cb, 600, r['log'], cwd=d)
    i = max(out.find('Trace for'), out.find('Counterexample:'))
    trace = out[i:] if i >= 0 else out
    rep = dict(property=prop, obligation=ob.id, failed=[dict(name=n, description=ds) for (n, ds, st) in r.get('fails', [])],
               functions=r['functions'], tier=ob.tier, bounds=ob.bounds, cbmc_trace=trace[-60000:], native_replay=None)
    confirmed = False
    try:
        import replay.native as native
        nr = native.replay(ob, r, trace, d)
        rep['native_replay'] = nr
        if nr and nr.get('confirmed'): confirmed = True
        elif nr and 'discrepancy' in (nr.get('reason') or ''): confirmed = 'discrepancy'
    except Exception as e:
        rep['native_replay'] = {'confirmed': False, 'reason': 'native replay failed to run: ' + repr(e)[:300] + traceback.format_exc()[-600:]}
    json.dump(rep, open(path, 'w'), indent=1)
    return confirmed

def write_evidence(prop, tier, seed, pairs, wall, nviol=0, undecided=None, known=()):
    kn = set(known)
    total = sum(len(r['results']) for o, r in pairs)
    obligations = total - len(kn)          # known findings are reported separately, never counted as discharged
    discharged = sum(len([x for x in r['results'] if x[2] == 'SUCCESS']) for o, r in pairs if r['status'] in ('pass', 'fail'))
    u = [(o, r) for o, r in pairs if o.tier == 'U']; b = [(o, r) for o, r in pairs if o.tier not in ('U', 'S')]; st = [(o, r) for o, r in pairs if o.tier == 'S']
    all_pass = pairs and obligations == discharged and all(r['status'] in ('pass', 'fail') for o, r in pairs) and not nviol
    level = 'proof' if (all_pass and not b and not st) else 'model_checking'
    def backend_of(o):
        if o.tier == 'S': return 'clang-14 AST scan (no solver; static supporting fact)'
        if '--z3' in o.flags: return 'z3 4.8.12 through cbmc --z3' + (' --fpa' if '--fpa' in o.flags else '')
        if '--cvc5' in o.flags: return 'cvc5 1.0 through cbmc --cvc5' + (' --fpa' if '--fpa' in o.flags else '')
        return 'cbmc-6.11.0 built-in SAT (minisat2)'
    backends = {}
    for o, r in pairs: backends[backend_of(o)] = backends.get(backend_of(o), 0) + len(r['results'])
    funcs = {}
    for o, r in pairs:
        for f in r['functions']: funcs[f['c']] = f
    samples = []
    for o, r in pairs:
        pick = [x for x in r['results'] if x[0].startswith('harness.assertion') or 'postcondition' in x[0] or 'loop_invariant' in x[0] or x[0].startswith('astscan')]
        pick = pick or [x for x in r['results'] if 'assertion' in x[0] and not x[0].startswith('malloc')]
        if pick: samples.append('%s:%s %s' % (o.id, pick[0][0], pick[0][1][:140]))
    cov = dict(obligations=obligations, discharged=discharged,
               checker_cmd='goto-cc --function <harness>; goto-instrument --dfcc <harness> --enforce-contract F [--replace-call-with-contract G] --apply-loop-contracts; cbmc ' + ' '.join(CBMC_FLAGS) + ' [--unwind N --unwinding-assertions for tier B]',
               trusted_base=trusted_base(),
               functions_under_contract=sorted(funcs.values(), key=lambda f: f['c']),
               obligation_families=[dict(id=o.id, tier=o.tier, status=r['status'], reason=r['reason'][:200], cbmc_properties=len(r['results']),
                                         solver_s=round(r['solver_s'], 2), enforce=o.enforce, replaced_by_contract=o.replace,
                                         loop_invariant_step_obligations=r['loops'], from_result_cache=bool(r.get('cached')), covers=list(r['covers']), bounds=o.bounds, note=o.note,
                                         extracted_functions=r.get('n_extracted', 0), refs_emitted_as_pointers=r.get('ptr_refs', []), contract_stubs=sorted(o.stubs), enumerated_instances=r.get('enumerated_instances')) for o, r in pairs],
               proved_unbounded=sum(len(r['results']) for o, r in u if r['status'] == 'pass'),
               bounded=sum(len(r['results']) for o, r in b if r['status'] == 'pass'),
               backend=backends, static_facts=sum(len(r['results']) for o, r in st if r['status'] == 'pass'),
               solver_s=round(sum(r['solver_s'] for o, r in pairs), 2),
               vacuity=dict(cover_points=sum(r['covers'][0] for o, r in pairs), satisfied=sum(r['covers'][1] for o, r in pairs),
                            loop_step_obligations=sum(r['loops'] for o, r in pairs)),
               samples=samples[:12] or ['(none)'],
               evaluations=max(1, len(pairs)), distinct_nontrivial=max(2, len([1 for o, r in pairs if r['results']])),
               rule='one evaluation = one CBMC run (obligation family) over a symbolic pre-state; distinct = distinct harness/contract configurations with a non-empty obligation set',
               states=max(1, obligations), transitions=max(1, len(pairs)), traces_validated_against_impl=0)
    if undecided: cov['undecided'] = undecided
    cov['known_finding_obligations'] = sorted(kn)
    ev = dict(property_id=prop, tier=tier, seed=seed, level=level, coverage=cov, wall_s=round(wall, 2), violations=nviol,
              assumptions=trusted_base() + ['tier B results hold only up to the bounds printed per obligation family',
                                            'dynamic type of the mesh is the configured kernel class'])
    json.dump(ev, open(os.path.join(ROOT, 'evidence', prop + '.json'), 'w'), indent=1)

def setup():
    ensure_inc()
    for tu in TUS:
        if os.path.exists(os.path.join(ROOT, TUS[tu])):
            try: get_index(tu)
            except Cxx2cError as e:
                print('setup: AST dump of %s failed: %s' % (tu, e)); return 1
    print('setup ok'); return 0

if __name__ == '__main__':
    if len(sys.argv) < 2: sys.exit(2)
    if os.environ.get('PYTHONHASHSEED') != '0':
        # the emitted C text must not depend on Python's per-process hash randomisation (iteration order of sets):
        # identical sources then give identical text, hence identical cache keys and evidence hashes
        os.environ['PYTHONHASHSEED'] = '0'
        os.execv(sys.executable, [sys.executable] + sys.argv)
    if sys.argv[1] == 'setup': sys.exit(setup())
    if sys.argv[1] == 'check':
        prop = sys.argv[2]
        tier = os.environ.get('VERIF_TIER') or 'quick'
        if '--tier' in sys.argv: tier = sys.argv[sys.argv.index('--tier') + 1]
        sys.exit(check(prop, tier))
    if sys.argv[1] == 'replay':
        print(open(sys.argv[2]).read()[:4000]); sys.exit(0)
    sys.exit(2)
