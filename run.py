#!/usr/bin/env python3
import sys
if __name__=="__main__":
    if len(sys.argv)>1 and sys.argv[1]=="setup":
        print("setup ok"); sys.exit(0)
    sys.exit(2)
