#!/usr/bin/env python3
"""writes MANIFEST.json from the table below (kept in one place so that claims, notes and not_applicable stay consistent)"""
import json
T = 'CBMC contract enforcement (goto-instrument --dfcc / harness pre-post) on C extracted mechanically from the clang AST of the real sources (cxx2c); native replay of counterexamples against the real library'
CLAIMS = {
 'C01': ('model_checking', 'cache readers (incident_cell, valence, is_boundary x6) equal brute-force scans on constructive shapes; every mutator (add_*, delete_*_core, swap_*, enable_*, reorder) preserves WF = "caches are exactly the inverse of the live definitions" from ANY well-formed state within the bounds (history-inductive)', 'bounded: symbolic WF states with <= 2 entities per kind / constructive shapes; derived circulators not yet under contract'),
 'C02': ('model_checking', 'delete_{vertex,edge,face,cell}_core: survivors keep their definitions under the named renumbering (identity / shift / swap-with-last), flags, counters, in deferred, immediate and fast mode, every bottom-up subset; correction helpers proved unbounded', 'bounded (<= 2 per kind) for the cores; composite delete_X closure gathering and genus/logical counts not yet under contract'),
 'C03': ('model_checking', 'ghost property arrays driven by the real notification calls of every mutator follow the same renumbering as the topology (halfedge/halfface side by side), new slots get the default', 'template-level notifications (resize_props, entity_deleted, swap/copy_property_elements) are stubs acting on ghost arrays; PropertyStorageT element operations not yet under contract; bounded'),
 'C05': ('proof', 'ctor/++/-- of the six entity iterators against step contracts with loop invariants for every mesh size (unbounded)', 'circulators not yet under contract; six known findings: -- from the end state never restores valid()'),
 'C08': ('model_checking', 'handle algebra proved for all indices (unbounded); halfedge/halfface mirror views, next/prev inverse steps on constructive shapes with all arguments symbolic', 'views/next/prev bounded to the shapes tet, prism, quad pillow, open fan'),
 'C09': ('model_checking', 'reorder_incident_halffaces verified against the contract its callers use (permutation, frame); adjacent_halfface_in_cell = unique other halfface at the edge, involutive, on constructive closed cells', 'rotational-order clause not yet asserted; bounded shapes'),
 'C10': ('model_checking', 'every lookup against its brute-force specification (sound and complete) on constructive shapes, all argument tuples symbolic', 'bounded to the shapes; find_halfface(vertices)/(halfedges) checked in their documented 3-vertex / 2-halfedge reading'),
 'C11': ('model_checking', 'add_vertex/add_edge/add_face/add_cell: accept <=> specification predicate, reject/dedup => state unchanged, accept => exactly one entity appended with the given definition; every bottom-up subset', 'bounded (<= 2 per kind, lists <= 2); tet/hex overrides not yet under contract'),
 'C12': ('model_checking', 'all mutator obligations repeated for every bottom-up subset the function reads, vstd bounds assertions live on every cache access; enable_*(true) == recompute, enable_*(false) == empty', 'bounded as C01/C02/C17'),
 'C16': ('proof', 'orientation algebra (orthogonal_orientation, opposite_orientation) over all 65 536 argument pairs; layout accessors, orientation(), opposite_halfface_handle_in_cell on one cell with six arbitrary halfface handles', 'partial: add_cell reordering/check_halfface_ordering, hex_vertices and the sheet circulators are not under contract'),
 'C17': ('model_checking', 'swap_{cell,face,edge,vertex}_indices = transposition applied to definitions, flags, caches, ghost properties; swap twice = identity; self-swap no-op; from any WF state within the bounds', 'bounded (<= 2 per kind); definitions of deleted-but-uncollected entities only required to stay in range'),
 'C04': ('model_checking', 'collect_garbage / leaving deferred mode: no pending deletions afterwards and the entities, definitions (expressed in unique ids) and property values are exactly those of the logical mesh, for any pattern of pending deletions on any WF state within the bounds', 'bounded (<= 2 per kind; with caches: 1 vertex/edge); StatusAttrib::garbage_collection and tracked-handle remapping not decided'),
 'C06': ('proof', 'Encoder/Decoder primitives and all six header codecs are mutually inverse for every value (bit-exact float/double), written sizes equal the documented sizes', 'lemma level only: chunk sequencing, property directory, geometry writer templates and the ASCII format are not under contract'),
 'C07': ('proof', 'every unchecked Decoder primitive under a contract requiring enough remaining bytes; every header reader run on a decoder of unbounded size/position with pointer checks: no over-read, exact consumption; kernel add_* tolerate any in-range list (bounded)', 'OVMB only; property codecs, topology chunk bodies and the ASCII reader not yet under contract'),
 'C18': ('proof', 'internal_read_file: Ok implies EOF chunk seen, stream exhausted, state Ok (loop invariant, unbounded chunks); header readers reject short buffers, bad magic/version/reserved/enum values; padding bytes must be zero', 'read_chunk and kernel calls are contract stubs; stream modelled by byte counts'),
 'C20': ('model_checking', 'every const query under contract leaves the complete mesh state unchanged (same_state / empty assigns clause): no write, hence no data race between read-only threads', 'frame theorem only; no interleaving is executed; libstdc++ const-member thread safety assumed'),
}
NA = {
 'C13': 'copy/assignment independence is about object ownership (shared_ptr, destructors, implicit special members); the C extraction maps container copy to deep copy by definition, so a contract would restate the model, not check the code (DESIGN 5)',
 'C14': 'property registry lifetime (reference counts, destructor order, Tracker back-pointers) is not representable in the extracted C: destructors and shared_ptr are dropped by the extraction (DESIGN 5)',
 'C15': 'tetrahedral kernel obligations not built yet',
 'C19': 'vector algebra contracts not built yet',
}
m = {"version": 1, "setup_cmd": "python3 run.py setup",
     "hooks": {"guard": "OVM_VERIF", "enable": "-DOVM_VERIF on the native replayer's own unity compile of the library sources (replay/native.py); the CBMC side needs no hook",
               "baseline_off_cmd": "cmake --build /repo/_build && ctest --test-dir /repo/_build -j8 --timeout 900",
               "source_commits": ["f1ad3be"], "add_only": True},
     "engines": [{"name": "cxx2c+cbmc", "path": "run.py", "serves_properties": sorted(CLAIMS), "kind_free_text": "clang JSON AST -> C extraction of the real functions on every run (cxx2c/), contracts woven in, goto-instrument --dfcc, cbmc; native replay against the real library (replay/)"}],
     "checks": [], "not_applicable": [{"property_id": k, "reason": v} for k, v in sorted(NA.items())],
     "notes": "exit 2 = undecided (extraction failure, timeout, bound too small, tool discrepancy); see DESIGN.md"}
for pid, (cat, text, note) in sorted(CLAIMS.items()):
    m['checks'].append({"property_id": pid, "quick_cmd": "python3 run.py check %s --tier quick" % pid, "thorough_cmd": "python3 run.py check %s --tier thorough" % pid,
                        "evidence_file": "/verif/evidence/%s.json" % pid, "replay_cmd_template": "python3 run.py replay {path}", "engine": "cxx2c+cbmc",
                        "level_claimed": {"category": cat, "text": text, "design_ref": "DESIGN.md section 5 " + pid}, "level_note": note + '; trusted: clang AST, cxx2c rules, vstd model of libstdc++, CBMC', "technique": T})
json.dump(m, open('/verif/MANIFEST.json', 'w'), indent=1)
print('claimed', sorted(CLAIMS), 'n/a', sorted(NA))
