"""clang JSON AST -> C emitter for the OpenVolumeMesh sources (cxx2c).

Every AST node kind / callee without a rule raises Cxx2cError (exit 2), never
produces guessed text."""
import re, sys, os
from collections import OrderedDict
from astidx import Cxx2cError, FUNC_KINDS, REC_KINDS, has_body, _const_value
from ctypes_ import T, parse_type, PRIM_C, sanitize
import stdmap

OPNAMES = {'operator[]': 'op_index', 'operator++': 'op_inc', 'operator--': 'op_dec', 'operator==': 'op_eq',
           'operator!=': 'op_ne', 'operator<': 'op_lt', 'operator>': 'op_gt', 'operator<=': 'op_le', 'operator>=': 'op_ge',
           'operator=': 'op_assign', 'operator*': 'op_star', 'operator->': 'op_arrow', 'operator()': 'op_call',
           'operator+': 'op_plus', 'operator-': 'op_minus', 'operator+=': 'op_pluseq', 'operator-=': 'op_minuseq',
           'operator*=': 'op_muleq', 'operator/=': 'op_diveq', 'operator/': 'op_div', 'operator%': 'op_mod',
           'operator|': 'op_or', 'operator&': 'op_and', 'operator^': 'op_xor', 'operator<<': 'op_shl', 'operator>>': 'op_shr',
           'operator!': 'op_not', 'operator bool': 'op_bool', 'operator~': 'op_compl', 'operator|=': 'op_oreq',
           'operator&=': 'op_andeq', 'operator,': 'op_comma', 'operator%=': 'op_modeq'}

BUILTIN_ALIASES = {'size_t': 'unsigned long', 'std::size_t': 'unsigned long', 'ptrdiff_t': 'long', 'std::ptrdiff_t': 'long',
                   'uint8_t': 'unsigned char', 'uint16_t': 'unsigned short', 'uint32_t': 'unsigned int', 'uint64_t': 'unsigned long',
                   'int8_t': 'signed char', 'int16_t': 'short', 'int32_t': 'int', 'int64_t': 'long',
                   'std::uint8_t': 'unsigned char', 'std::uint16_t': 'unsigned short', 'std::uint32_t': 'unsigned int', 'std::uint64_t': 'unsigned long',
                   'std::int8_t': 'signed char', 'std::int16_t': 'short', 'std::int32_t': 'int', 'std::int64_t': 'long',
                   'uintptr_t': 'unsigned long', 'intptr_t': 'long', 'ssize_t': 'long'}
STD_ALIASES = {'std::string': 'std::basic_string<char>', 'std::istream': 'std::basic_istream<char>', 'std::ostream': 'std::basic_ostream<char>', 'std::stringstream': 'std::basic_stringstream<char>', 'string': 'std::basic_string<char>', 'std::streamsize': 'long', 'std::streamoff': 'long'}

def loc_of(n):
    f = n.get('_file'); l = n.get('_line')
    if f is None: return '?'
    return '%s:%s' % (f.replace('/repo/', ''), l)

def strip_parens(s):
    s = s.strip()
    while s.startswith('(') and s.endswith(')'):
        depth = 0; ok = True
        for i, ch in enumerate(s):
            if ch == '(': depth += 1
            elif ch == ')':
                depth -= 1
                if depth == 0 and i != len(s) - 1: ok = False; break
        if not ok: break
        s = s[1:-1].strip()
    return s

def addr_of(lv):
    """C expression for the address of the lvalue expression lv"""
    s = strip_parens(lv)
    if s.startswith('*'):
        inner = s[1:].strip()
        # "*X" where X is one balanced primary
        if _balanced_primary(inner):
            return '(' + strip_parens(inner) + ')'
    return '(&(' + s + '))'

def _balanced_primary(s):
    s = s.strip()
    if not s: return False
    if re.match(r'^[A-Za-z_][A-Za-z_0-9]*$', s): return True
    if s.startswith('('):
        depth = 0
        for i, ch in enumerate(s):
            if ch == '(': depth += 1
            elif ch == ')':
                depth -= 1
                if depth == 0:
                    return i == len(s) - 1
        return False
    # identifier followed by one balanced call: f(...)
    m = re.match(r'^[A-Za-z_][A-Za-z_0-9]*\(', s)
    if m:
        depth = 0
        for i, ch in enumerate(s):
            if ch == '(': depth += 1
            elif ch == ')':
                depth -= 1
                if depth == 0:
                    return i == len(s) - 1
    return False

def deref(p):
    s = strip_parens(p)
    if s.startswith('&'):
        inner = s[1:].strip()
        if _balanced_primary(inner):
            return '(' + strip_parens(inner) + ')'
    return '(*(' + s + '))'

class FuncCtx:
    def __init__(self, cname):
        self.cname = cname
        self.temps = []
        self.ntemp = 0
        self.loop_ord = 0
        self.ret_ctype = 'void'
        self.ret_is_ref = False
        self.aliases = {}        # var decl id -> C lvalue expression (reference lowered to re-evaluation)
        self.renames = {}        # decl id -> C identifier
        self.lambda_caps = None
        self.may_throw = False
        self.loops = []          # (ordinal, kind, loc)
        self.ptr_refs = []       # references emitted as pointers to container elements (flag for evidence)
        self.try_stack = []      # labels of enclosing try blocks
        self.stmt_throws = False # the statement being emitted contains a call that may raise
        self.ntry = 0

class Emitter:
    def __init__(self, ix, cfg=None):
        self.ix = ix
        self.cfg = cfg or {}
        self.struct_defs = OrderedDict()   # cname -> (deps, text)
        self.vstd_req = OrderedDict()      # cname -> (kind, elemT info)
        self.queue = []
        self.done = OrderedDict()          # first decl id -> cname
        self.func_text = OrderedDict()     # cname -> (proto, body lines)
        self.func_info = OrderedDict()     # cname -> dict(loc, qual, loops, callees)
        self.contracts = self.cfg.get('contracts', {})   # cname -> {'head': str, 'loops': {ord: str}}
        self.dyn_type = self.cfg.get('dynamic_type')      # qualified class name for devirtualisation
        self.cname_cache = {}
        self.enum_under = {}
        self.stub_funcs = self.cfg.get('stubs', {})     # qualified name -> C function name provided by harness (trusted)
        self.fc = None
        self.throwing = set()
        self.record_overrides = self.cfg.get('record_overrides', {})
        self.cur_loc = '?'
        self.stub_protos = OrderedDict()
        self.calls = {}            # cname -> set of callee cnames (call graph, for the may-throw closure)
        self.direct_throw = set()
        self.throwing = set(self.cfg.get('throwing', ()))
        self.exc_codes = {}

    # ------------------------------------------------------------------ errors
    def fail(self, n, msg):
        raise Cxx2cError('cxx2c: %s at %s (node %s %s) in %s' % (msg, loc_of(n) if n else '?', n.get('kind') if n else '', n.get('id') if n else '', self.fc.cname if self.fc else '?'))

    # ------------------------------------------------------------------ types
    def qtype(self, n):
        ty = n.get('type')
        if not ty: self.fail(n, 'node without type')
        return ty.get('desugaredQualType') or ty['qualType']

    def T_of(self, n):
        return self.canon(parse_type(self.qtype(n)))

    def canon(self, t):
        """resolve aliases inside a parsed type"""
        if t.kind == 'named':
            key = t.key()
            if t.name in BUILTIN_ALIASES and not t.args:
                return T('named', BUILTIN_ALIASES[t.name], const=t.const)
            if t.name in STD_ALIASES and not t.args:
                return self.canon(parse_type(STD_ALIASES[t.name]))
            lm = getattr(self, 'cur_lambda_map', None)
            if lm and t.name in lm and lm[t.name] != t.name:
                t = T('named', lm[t.name], const=t.const)
            rq = getattr(self, 'cur_rec_qual', None)
            if rq and not t.args and '::' not in t.name and (rq + '::' + t.name) in self.ix.aliases:
                # member typedef of the class whose member function is being emitted (using T = ...)
                r = self.canon(parse_type(self.ix.aliases[rq + '::' + t.name]))
                if t.const: r = _copyT(r); r.const = True
                return r
            la = getattr(self, 'cur_local_alias', None)
            if la and not t.args and t.name in la:
                r = self.canon(parse_type(la[t.name]))
                if t.const: r = _copyT(r); r.const = True
                return r
            if t.name in self.ix.aliases and not t.args:
                r = self.canon(parse_type(self.ix.aliases[t.name]))
                if t.const:
                    r = _copyT(r); r.const = True
                return r
            if t.name.startswith('OpenVolumeMesh::') is False and ('OpenVolumeMesh::' + t.name) in self.ix.aliases and not t.args:
                return self.canon(parse_type(self.ix.aliases['OpenVolumeMesh::' + t.name]))
            r = self.canon_std_nested(t)
            if r is not None: return r
            name = t.name
            if name.startswith('__normal_iterator') or name.startswith('__alloc_traits'): name = '__gnu_cxx::' + name
            if not name.startswith(('std::', '__gnu_cxx::', 'OpenVolumeMesh::', '(')) and name not in PRIM_C:
                if '::' in name and not t.args:
                    suf = [k for k in self.ix.aliases if k.endswith('::' + name)]
                    if len(suf) == 1: return self.canon(parse_type(self.ix.aliases[suf[0]]))
                    if len(set(self.ix.aliases[k] for k in suf)) == 1 and suf: return self.canon(parse_type(self.ix.aliases[suf[0]]))
                for pre in ('OpenVolumeMesh::', 'OpenVolumeMesh::detail::', 'OpenVolumeMesh::IO::', 'OpenVolumeMesh::IO::detail::', 'OpenVolumeMesh::Geometry::'):
                    if pre + name in self.known_names() or (pre + name in self.ix.aliases and not t.args):
                        break
                else:
                    pre = 'OpenVolumeMesh::'
                cand = pre + name
                if cand in self.known_names():
                    name = cand
                elif cand in self.ix.aliases and not t.args:
                    return self.canon(parse_type(self.ix.aliases[cand]))
            nt = T('named', name, [self.canon(a) if isinstance(a, T) else a for a in t.args], const=t.const)
            return nt
        if t.kind in ('ptr', 'ref', 'rref', 'array'):
            r = T(t.kind, name=t.name, inner=self.canon(t.inner), const=t.const)
            return r
        return t

    def known_names(self):
        if not hasattr(self, '_known'):
            self._known = set()
            for k in self.ix.records: self._known.add(re.sub(r'<.*$', '', k))
            for nid, n in self.ix.by_id.items():
                if n.get('kind') == 'EnumDecl' and nid in self.ix.qual: self._known.add(self.ix.qual[nid])
        return self._known

    def canon_std_nested(self, t):
        """std::vector<X>::iterator and friends, __alloc_traits<...>::value_type"""
        name = t.name
        m = re.match(r'^(?:__gnu_cxx::)?__alloc_traits<.*>::(value_type|reference|const_reference)$', name)
        if m:
            inner = name[name.index('<') + 1: name.rindex('>')]
            # second template argument is the value type
            parts = _split_top(inner)
            r = self.canon(parse_type(parts[1]))
            return r
        if name.startswith('std::enable_if<') and name.endswith('>::type'):
            parts = _split_top(name[len('std::enable_if<'):-len('>::type')])
            return self.canon(parse_type(parts[1])) if len(parts) > 1 else T('named', 'void')
        m = re.match(r'^(std::array<.*>)::(value_type|reference|const_reference|size_type)$', name)
        if m:
            cont = self.canon(parse_type(m.group(1)))
            if m.group(2) == 'size_type': return T('named', 'unsigned long')
            return cont.args[0] if m.group(2) == 'value_type' else T('ref', inner=cont.args[0])
        if name == 'std::enable_if_t' and t.args:
            return self.canon(t.args[1]) if len(t.args) > 1 and isinstance(t.args[1], T) else T('named', 'void')
        if name.startswith('std::enable_if_t<'):
            parts = _split_top(name[len('std::enable_if_t<'):-1])
            return self.canon(parse_type(parts[1])) if len(parts) > 1 else T('named', 'void')
        m = re.match(r'^(std::(?:vector|set)<.*>)::(\w+)$', name)
        if m:
            cont = self.canon(parse_type(m.group(1))); mem = m.group(2)
            e = cont.args[0]
            isvec = cont.name == 'std::vector'
            if mem in ('size_type',): return T('named', 'unsigned long')
            if mem == 'difference_type': return T('named', 'long')
            if mem in ('value_type', 'key_type'): return e
            if mem in ('reference', 'const_reference'):
                if isvec and e.name == 'bool':
                    return T('named', 'std::_Bit_reference') if mem == 'reference' else T('named', 'bool')
                return T('ref', inner=e)
            if mem in ('iterator', 'const_iterator'):
                if isvec and e.name == 'bool': return T('named', 'std::_Bit_iterator')
                if isvec: return T('named', '__gnu_cxx::__normal_iterator', [T('ptr', inner=e), cont])
                return T('named', 'std::_Rb_tree_const_iterator', [e])
            if mem in ('reverse_iterator', 'const_reverse_iterator'):
                it = self.canon(parse_type(m.group(1) + '::iterator'))
                return T('named', 'std::reverse_iterator', [it])
        return None

    def ctype(self, t, ctx=None):
        """C type string for canonical type t"""
        if t.kind in ('ptr', 'ref', 'rref'):
            if t.inner.kind == 'func': return 'void *'
            return self.ctype(t.inner) + ' *'
        if t.kind == 'array':
            self.fail(ctx, 'array type in this position: ' + t.key())
        if t.kind == 'func':
            return 'void'
        name = t.name
        if name in PRIM_C: return PRIM_C[name]
        r = stdmap.ctype_std(self, t)
        if r is not None: return r
        key = t.key()
        if key in self.record_overrides:
            return self.record_overrides[key]
        # HandleIndexing<Tag, Parent> is its Parent (adds no state)
        if name == 'OpenVolumeMesh::HandleIndexing':
            return self.ctype(t.args[1])
        if key in self.ix.records:
            return 'struct ' + self.struct_for(key)
        # enums
        en = self.enum_info(key)
        if en is not None: return en
        raise Cxx2cError('cxx2c: no C mapping for type %s (at %s, in %s)' % (key, self.cur_loc, self.fc.cname if self.fc else '?'))

    def enum_info(self, key):
        for nid, n in self.ix.by_id.items():
            pass
        if not hasattr(self, '_enums'):
            self._enums = {}
            for nid, n in self.ix.by_id.items():
                if n.get('kind') == 'EnumDecl' and nid in self.ix.qual:
                    ut = n.get('fixedUnderlyingType', {}).get('desugaredQualType') or n.get('fixedUnderlyingType', {}).get('qualType') or 'int'
                    self._enums[self.ix.qual[nid]] = PRIM_C.get(parse_type(ut).name, 'int')
        return self._enums.get(key)

    def is_enum(self, t):
        return t.kind == 'named' and self.enum_info(t.key()) is not None

    def elemname(self, t):
        if t.kind in ('ptr', 'ref', 'rref'): return self.elemname(t.inner) + '_p'
        n = t.name
        if n in PRIM_C:
            return {'bool': 'bool', 'unsigned long': 'ulong', 'unsigned int': 'uint', 'unsigned char': 'uchar', 'unsigned short': 'ushort',
                    'long': 'long', 'signed char': 'schar', 'long long': 'llong', 'unsigned long long': 'ullong'}.get(n, n.replace(' ', '_'))
        c = self.ctype(t)
        return c.replace('struct ', '').replace(' ', '_').replace('*', 'p')

    def record_of(self, t):
        t = t.strip_ref()
        if t.kind != 'named': return None
        return self.ix.records.get(t.key())

    def rec_fields(self, key):
        """flattened (name, T, fielddecl) list: bases first"""
        rec = self.ix.records[key]
        out = []
        nb = 0
        for b in rec.get('bases', []):
            bt = self.canon(parse_type(b['type'].get('desugaredQualType') or b['type']['qualType']))
            bk = bt.key()
            if any(bk.startswith(x) for x in self.cfg.get('drop_bases', [])): continue      # base class state outside the model (listed in the evidence)
            if bk in self.record_overrides:
                out.append(('__base_' + sanitize(bk), bt, None)); nb += 1; continue
            if bt.name.startswith('std::') and stdmap.ctype_std(self, bt) is not None:
                out.append(('__stdbase', bt, None)); nb += 1; continue
            if bk not in self.ix.records:
                if bt.name.startswith('std::'): continue    # std::true_type etc: stateless
                raise Cxx2cError('cxx2c: base %s of %s has no definition' % (bk, key))
            bf = self.rec_fields(bk)
            if bf: nb += 1
            out.extend(bf)
        if nb > 1:
            raise Cxx2cError('cxx2c: %s has more than one non-empty base (layout rule does not cover it)' % key)
        drop = self.cfg.get('drop_fields', {}).get(key, [])
        ncap = 0
        for c in rec.get('inner', []):
            if c.get('kind') == 'FieldDecl' and c.get('name', '') not in drop:
                fname = c.get('name')
                if not fname:
                    fname = 'cap%d' % ncap; ncap += 1      # lambda capture
                out.append((fname, self.canon(parse_type(c['type'].get('desugaredQualType') or c['type']['qualType'])), c))
        for fname, fts in self.cfg.get('extra_fields', {}).get(key, []):
            out.append((fname, self.canon(parse_type(fts)), None))
        names = [f[0] for f in out]
        if len(set(names)) != len(names):
            raise Cxx2cError('cxx2c: field name clash after flattening bases of %s: %s' % (key, names))
        return out

    def struct_for(self, key):
        cn = sanitize(key)
        if cn in self.struct_defs: return cn
        self.struct_defs[cn] = None   # in progress
        fields = self.rec_fields(key)
        lines = []
        deps = []
        for fname, ft, fd in fields:
            if ft.is_ref():
                lines.append('  %s %s;' % (self.ctype(ft), fname))
            elif ft.kind == 'array':
                lines.append('  %s %s[%s];' % (self.ctype(ft.inner), fname, ft.name))
                deps.append(self.ctype(ft.inner))
            else:
                c = self.ctype(ft)
                lines.append('  %s %s;' % (c, fname))
                if not c.endswith('*'): deps.append(c)
        if not lines: lines.append('  char __empty;')
        self.struct_defs[cn] = (deps, 'struct %s {\n%s\n};' % (cn, '\n'.join(lines)), key)
        return cn

    def is_trivially_copyable(self, t):
        t = t.strip_ref()
        if t.kind == 'ptr': return True
        if t.kind != 'named': return False
        if t.name in PRIM_C or self.is_enum(t): return True
        r = stdmap.trivially_copyable_std(self, t)
        if r is not None: return r
        if t.name == 'OpenVolumeMesh::HandleIndexing': return self.is_trivially_copyable(t.args[1])
        rec = self.ix.records.get(t.key())
        if rec is None: return False
        for fname, ft, fd in self.rec_fields(t.key()):
            if ft.kind == 'array':
                if not self.is_trivially_copyable(ft.inner): return False
            elif not ft.is_ref() and not self.is_trivially_copyable(ft): return False
        return True

    # deep copy expression for a value of type t given C lvalue/rvalue expression e (a C expression of that type)
    def copy_expr(self, t, lv):
        t = t.strip_ref()
        if self.is_trivially_copyable(t): return lv
        r = stdmap.copy_expr_std(self, t, lv)
        if r is not None: return r
        if t.name == 'OpenVolumeMesh::HandleIndexing': return self.copy_expr(t.args[1], lv)
        # OVM record with containers: synthesise memberwise copy helper
        return '%s(%s)' % (self.copy_helper(t), addr_of(lv))

    def copy_helper(self, t):
        key = t.key()
        cn = self.struct_for(key)
        name = cn + '__copy'
        if name not in self.func_text:
            self.func_text[name] = None
            body = ['  struct %s r;' % cn]
            for fname, ft, fd in self.rec_fields(key):
                if ft.kind == 'array':
                    raise Cxx2cError('copy helper: array field in ' + key)
                body.append('  r.%s = %s;' % (fname, self.copy_expr(ft, '(src->%s)' % fname) if not ft.is_ref() else 'src->' + fname))
            body.append('  return r;')
            self.func_text[name] = ('struct %s %s(struct %s *src)' % (cn, name, cn), body, None)
            self.func_info[name] = dict(qual=key + ' (memberwise copy, synthesised)', loc='', loops=[], synthesized=True)
        return name

    def deq_expr(self, t, x, y):
        """C expression: deep equality of two lvalues of type t (synthesised; used for generated frame checks)"""
        if t.kind in ('ptr', 'ref', 'rref'): return '(%s == %s)' % (x, y)
        if t.kind == 'array': raise Cxx2cError('deep equality: array field')
        if t.name in PRIM_C or self.is_enum(t): return '(%s == %s)' % (x, y)
        if t.name == 'OpenVolumeMesh::HandleIndexing': return self.deq_expr(t.args[1], x, y)
        if t.name in ('std::vector', 'std::set') and getattr(self, 'deq_shallow', False):
            return '(%s.size == %s.size)' % (x, y)
        if t.name in ('std::vector', 'std::set'):
            e = t.args[0]; c = self.ctype(t).replace('struct ', '')
            name = c + '__deq'
            if name not in self.func_text:
                self.func_text[name] = None
                body = ['  if (a->size != b->size) return 0;', '  _Bool r = 1;',
                        '  for (unsigned long k = 0; k < a->size; k++) { if (!%s) r = 0; }' % self.deq_expr(e, 'a->data[k]', 'b->data[k]'), '  return r;']
                self.func_text[name] = ('_Bool %s(struct %s *a, struct %s *b)' % (name, c, c), body, None)
                self.func_info[name] = dict(qual=t.key() + ' (deep equality, synthesised)', loc='', loops=[], synthesized=True)
            return '%s(&(%s), &(%s))' % (name, x, y)
        if t.name == 'std::pair':
            return '(%s && %s)' % (self.deq_expr(t.args[0], x + '.first', y + '.first'), self.deq_expr(t.args[1], x + '.second', y + '.second'))
        if t.name == 'std::array':
            nn = int(re.sub(r'[uUlL]', '', str(t.args[1])))
            return '(' + ' && '.join(self.deq_expr(t.args[0], '%s.d[%d]' % (x, k), '%s.d[%d]' % (y, k)) for k in range(nn)) + ')'
        key = t.key()
        if key in self.ix.records:
            return '%s(&(%s), &(%s))' % (self.deq_helper(t), x, y)
        raise Cxx2cError('deep equality: no rule for type ' + key)

    def deq_helper(self, t, shallow=False):
        """deep equality over every field; shallow=True compares containers by size only (scalars, flags, counters, handles
        and container sizes of EVERY field, including ones the hand-written specs do not know about)"""
        key = t.key()
        cn = self.struct_for(key)
        name = cn + ('__seq' if shallow else '__deq')
        self.deq_shallow = shallow
        if name not in self.func_text:
            self.func_text[name] = None
            body = ['  _Bool r = 1;']
            for fname, ft, fd in self.rec_fields(key):
                body.append('  if (!%s) r = 0;' % self.deq_expr(ft, 'a->' + fname, 'b->' + fname))
            body.append('  return r;')
            self.func_text[name] = ('_Bool %s(struct %s *a, struct %s *b)' % (name, cn, cn), body, None)
            self.func_info[name] = dict(qual=key + ' (memberwise deep equality, synthesised)', loc='', loops=[], synthesized=True)
        return name

    def default_init_stmt(self, t, lv):
        """C statement(s) default-initialising lvalue lv of type t (C++ default-init/value-init of class types)"""
        if t.kind == 'ptr': return '%s = 0;' % lv
        if t.kind == 'array': return ''
        if t.name in PRIM_C or self.is_enum(t): return '%s = 0;' % lv
        r = stdmap.default_init_std(self, t, lv)
        if r is not None: return r
        if t.name == 'OpenVolumeMesh::HandleIndexing': return self.default_init_stmt(t.args[1], lv)
        key = t.key()
        rec = self.ix.records.get(key)
        if rec is None: raise Cxx2cError('default init of unknown type ' + key)
        # find default constructor
        ctor = self.find_default_ctor(rec)
        if ctor is not None:
            cn = self.request_func(ctor)
            return '%s(%s);' % (cn, addr_of(lv))
        # no user ctor: memberwise default init with in-class initialisers
        return self.memberwise_default(key, lv)

    def memberwise_default(self, key, lv):
        out = []
        for fname, ft, fd in self.rec_fields(key):
            init = None
            if fd is not None:
                for c in fd.get('inner', []):
                    if c.get('kind', '').endswith('Expr') or c.get('kind', '').endswith('Literal') or c.get('kind') in ('ExprWithCleanups', 'UnaryOperator', 'BinaryOperator'):
                        init = c
            if init is not None:
                out.append(self.init_into(ft, '%s.%s' % (lv, fname), init))
            elif not ft.is_ref():
                out.append(self.default_init_stmt(ft, '%s.%s' % (lv, fname)))
        return ' '.join(out)

    def find_default_ctor(self, rec):
        best = None
        for c in rec.get('inner', []):
            if c.get('kind') == 'CXXConstructorDecl':
                params = [p for p in c.get('inner', []) if p.get('kind') == 'ParmVarDecl']
                if all(self.parm_has_default(p) for p in params):
                    d = self.ix.definition(c['id'])
                    if d is not None: return d
                    if c.get('isImplicit') or c.get('explicitlyDefaulted'):
                        best = best
        return best

    def parm_has_default(self, p):
        return any(k.get('kind', '').endswith('Expr') or k.get('kind', '').endswith('Literal') for k in p.get('inner', []))

    # ------------------------------------------------------------------ function naming / requesting
    def func_sig(self, fn):
        q = fn['type']['qualType']
        return q

    def ret_type_of(self, fn):
        q = fn['type'].get('desugaredQualType') or fn['type']['qualType']
        if 'decltype' in q or q.startswith('auto '):
            r = self.ret_type_sugar(fn, q)
            if r is not None: return r
        depth = 0
        for i, ch in enumerate(q):
            if ch == '<': depth += 1
            elif ch == '>': depth -= 1
            elif ch == '(' and depth == 0:
                return self.canon(parse_type(q[:i].strip()))
        self.fail(fn, 'cannot split function type ' + q)

    def ret_type_sugar(self, fn, q):
        """return type of an instantiated function template whose written type is not desugared in the dump
        (trailing return types, decltype, enable_if with dependent conditions)"""
        if '->' in q and q.startswith('auto '):
            # 'auto (params) [const] -> type': the arrow after the parameter list
            d = 0; end = None
            for i, ch in enumerate(q):
                if ch == '(': d += 1
                elif ch == ')':
                    d -= 1
                    if d == 0: end = i; break
            if end is None or '->' not in q[end:]: return None
            txt = q[q.index('->', end) + 2:].strip()
        else:
            depth = 0; txt = None
            for i, ch in enumerate(q):
                if ch in '<(' and not (ch == '(' and depth == 0): depth += 1
                elif ch in '>)' and depth > 0: depth -= 1
                elif ch == '(' and depth == 0: txt = q[:i].strip(); break
            if txt is None: return None
        txt = re.sub(r'^typename\s+', '', txt)
        m = re.match(r'^std::enable_if(_t)?<(.*)>(::type)?$', txt)
        if m:
            inner = m.group(2); ad = pd = 0; x = 'void'
            for i in range(len(inner) - 1, -1, -1):       # last top-level comma, scanning from the right (the condition may contain '>=')
                ch = inner[i]
                if ch == ')': pd += 1
                elif ch == '(': pd -= 1
                elif pd > 0: continue                      # operators inside a parenthesised expression (->, <, >)
                elif ch == '>': ad += 1
                elif ch == '<': ad -= 1
                elif ch == ')': pd += 1
                elif ch == '(': pd -= 1
                elif ch == ',' and ad == 0 and pd == 0: x = inner[i + 1:].strip(); break
            if 'decltype' not in x:
                ref = x.endswith('&'); base = x.rstrip('& ').strip()
                rid = self.ix.parent_rec.get(fn['id']) or self.ix.parent_rec.get(self.ix.first.get(fn['id'], fn['id']))
                rq = self.ix.qual.get(rid) if rid is not None else None
                if rq and (rq + '::' + base) in self.ix.aliases: base = self.ix.aliases[rq + '::' + base]
                t = self.canon(parse_type(base))
                return T('ref', inner=t) if ref else t
        # decltype(expression): take the type and value category of the returned expression
        def find_ret(n):
            if n.get('kind') == 'ReturnStmt' and n.get('inner'): return n['inner'][0]
            if n.get('kind') in ('LambdaExpr',): return None
            for c in n.get('inner', []):
                r = find_ret(c)
                if r is not None: return r
            return None
        body = [c for c in fn.get('inner', []) if c.get('kind') == 'CompoundStmt']
        if not body: return None
        e = find_ret(body[0])
        if e is None: return T('named', 'void')
        while e.get('kind') in ('ExprWithCleanups',): e = e['inner'][0]
        t = self.T_of(e).strip_ref()
        if t.const: t = _copyT(t); t.const = False
        if e.get('valueCategory') == 'lvalue' and 'decltype' in txt: return T('ref', inner=t)
        return t

    def params_of(self, fn):
        return [p for p in fn.get('inner', []) if p.get('kind') == 'ParmVarDecl']

    def cname(self, fn):
        fid = self.ix.first.get(fn['id'], fn['id'])
        if fid in self.cname_cache: return self.cname_cache[fid]
        qual = self.ix.qual.get(fn['id']) or self.ix.qual.get(fid)
        if qual is None:
            self.fail(fn, 'function without qualified name: ' + fn.get('name', '?'))
        rid = self.ix.parent_rec.get(fn['id']) or self.ix.parent_rec.get(fid)
        name = fn.get('name', '')
        base = name
        targs = ''
        rq = self.ix.qual.get(rid) if rid is not None else None
        tail = qual[len(rq) + 2:] if rq and qual.startswith(rq + '::') else qual
        if tail.startswith(name) and tail[len(name):].startswith('<') and tail.endswith('>') and name not in ('operator<', 'operator<<', 'operator<=', 'operator->'):
            targs = tail[len(name):]
        elif not rq and name and ('::' + name + '<') in qual and qual.endswith('>') and not name.startswith('operator'):
            targs = qual[qual.rindex('::' + name + '<') + 2 + len(name):]
        if fn.get('kind') == 'CXXConstructorDecl': base = 'ctor'
        elif fn.get('kind') == 'CXXDestructorDecl': base = 'dtor'
        elif fn.get('kind') == 'CXXConversionDecl': base = 'conv_' + sanitize(name[len('operator '):])
        elif name in OPNAMES: base = OPNAMES[name]
        elif name.startswith('operator'): base = 'op_' + sanitize(name[8:])
        if rid is not None:
            rkey = self.ix.qual[rid]
            prefix = sanitize(rkey)
            siblings = [c for c in self.ix.by_id[rid].get('inner', []) if c.get('name') == name and c.get('kind') in FUNC_KINDS + ('FunctionTemplateDecl',)]
            overloaded = len(siblings) > 1 or fn.get('kind') == 'CXXConstructorDecl'
        else:
            scope = qual[:qual.rindex(name)] if name and name in qual else ''
            prefix = sanitize(scope)
            qn_plain = qual[:len(qual) - len(targs)] if targs else qual
            sibs = [k for k in self.ix.funcs_by_qual if (k == qn_plain or k.startswith(qn_plain + '<'))]
            nd = set()
            for k in sibs:
                for f in self.ix.funcs_by_qual[k]:
                    nd.add(self.ix.first.get(f['id'], f['id']))
            overloaded = len(nd) > 1
        cn = (prefix + '__' if prefix else '') + base
        if targs: cn += '_' + sanitize(targs)
        if overloaded:
            ps = [sanitize(self.canon(parse_type(p['type'].get('desugaredQualType') or p['type']['qualType'])).key()) for p in self.params_of(fn)]
            cn += '__' + '_'.join(ps) if ps else '__void'
            if 'const' in fn['type']['qualType'].split(')')[-1]: cn += '_c'
        if cn in self.cname_cache.values():
            cn += '_' + fid[-4:]
        self.cname_cache[fid] = cn
        return cn

    def request_func(self, fn_any):
        """fn_any: any decl node of the function; returns cname, queues definition"""
        fid = self.ix.first.get(fn_any['id'], fn_any['id'])
        qual = self.ix.qual.get(fn_any['id']) or self.ix.qual.get(fid) or fn_any.get('name')
        plain = re.sub(r'<.*$', '', qual) if not qual.split('::')[-1].startswith('operator') else qual
        if fid in self.done: return self.done[fid]
        for k in (qual, plain):
            if k in self.stub_funcs:
                cn = self.cname(fn_any)
                self.done[fid] = cn
                self.stub_protos[cn] = self.proto_of(fn_any, cn)
                return cn
        d = self.ix.definition(fid)
        if d is None:
            # maybe an instantiated member whose body was not instantiated / external function
            raise Cxx2cError('cxx2c: no definition for %s (%s) referenced at %s in %s' % (qual, fn_any.get('id'), self.cur_loc, self.fc.cname if self.fc else '?'))
        if d['id'] in self.ix.pattern or fid in self.ix.pattern:
            raise Cxx2cError('cxx2c: reference to uninstantiated template pattern %s' % qual)
        cn = self.cname(d)
        self.done[fid] = cn
        self.queue.append(d)
        return cn

    def run_queue(self):
        while self.queue:
            d = self.queue.pop(0)
            self.emit_function(d)

    # ------------------------------------------------------------------ function emission
    def emit_function(self, fn):
        cn = self.cname(fn)
        if self.func_text.get(cn) is not None: return
        prev = self.fc
        self.fc = fc = FuncCtx(cn)
        fc.root = fn
        self.cur_loc = loc_of(fn)
        kind = fn['kind']
        rid = self.ix.parent_rec.get(fn['id']) or self.ix.parent_rec.get(self.ix.first.get(fn['id'], fn['id']))
        prev_la = getattr(self, 'cur_local_alias', {})
        self.cur_local_alias = self.ix.local_alias.get(fn['id'], {})
        prev_rq = getattr(self, 'cur_rec_qual', None)
        self.cur_rec_qual = self.ix.qual.get(rid) if rid is not None else None
        prev_lm = getattr(self, 'cur_lambda_map', {})
        self.cur_lambda_map = self.ix.lambda_map.get(fn['id'], {})
        proto = self.proto_of(fn, cn, fc)
        self.func_text[cn] = None
        body = []
        if rid is not None and rid in self.ix.lambda_expr:
            # closure call operator: captured variables are reached through the closure's capture fields
            le = self.ix.lambda_expr[rid]
            rec = le['inner'][0]
            fields = [c for c in rec.get('inner', []) if c.get('kind') == 'FieldDecl']
            inits = [c for c in le['inner'][1:] if c.get('kind') != 'CompoundStmt']
            caps = {}
            for i, (fd, ie) in enumerate(zip(fields, inits)):
                ft = self.canon(parse_type(fd['type'].get('desugaredQualType') or fd['type']['qualType']))
                e0 = ie
                while e0.get('kind') in ('ImplicitCastExpr', 'ParenExpr', 'CXXConstructExpr', 'ExprWithCleanups', 'MaterializeTemporaryExpr') and e0.get('inner'): e0 = e0['inner'][0]
                acc = '(*self->cap%d)' % i if ft.is_ref() else 'self->cap%d' % i
                if e0.get('kind') == 'CXXThisExpr': caps['this'] = 'self->cap%d' % i
                elif e0.get('kind') == 'DeclRefExpr': caps[e0['referencedDecl']['id']] = acc
            fc.lambda_caps = caps
        if kind == 'CXXConstructorDecl':
            body.extend(self.ctor_inits(fn, rid))
        comp = [c for c in fn.get('inner', []) if c.get('kind') in ('CompoundStmt', 'CXXTryStmt')]
        if not comp: self.fail(fn, 'function without body')
        for c in comp:
            body.extend(self.stmt(c, top=True))
        self.func_text[cn] = (proto, body, fn)
        self.func_info[cn] = dict(qual=self.ix.qual.get(fn['id']), loc=loc_of(fn), loops=fc.loops, sig=fn['type']['qualType'],
                                  may_throw=fc.may_throw, ptr_refs=fc.ptr_refs)
        self.fc = prev; self.cur_local_alias = prev_la; self.cur_lambda_map = prev_lm; self.cur_rec_qual = prev_rq

    def proto_of(self, fn, cn, fc=None):
        kind = fn['kind']
        rid = self.ix.parent_rec.get(fn['id']) or self.ix.parent_rec.get(self.ix.first.get(fn['id'], fn['id']))
        is_static = fn.get('storageClass') == 'static' or (self.ix.by_id.get(self.ix.first.get(fn['id'], fn['id']), {}).get('storageClass') == 'static')
        params = []
        self_t = None
        if rid is not None and not is_static and kind != 'FunctionDecl':
            rkey = self.ix.qual[rid]
            self_t = self.canon(parse_type(rkey))
            params.append('%s *self' % self.ctype(self_t))
        seen_names = {}
        for p in self.params_of(fn):
            pt = self.canon(parse_type(p['type'].get('desugaredQualType') or p['type']['qualType']))
            pname = p.get('name') or '__unnamed_%s' % p['id'][-4:]
            if pname in seen_names:
                # expanded parameter pack: every element carries the pack's name
                seen_names[pname] += 1; pname = '%s_%d' % (pname, seen_names[pname])
                if fc is not None: fc.renames[p['id']] = pname
            else:
                seen_names[pname] = 0
            if pt.kind == 'array':
                params.append('%s *%s' % (self.ctype(pt.inner), pname))
            else:
                params.append('%s %s' % (self.ctype(pt), pname))
        if kind in ('CXXConstructorDecl', 'CXXDestructorDecl'):
            rett = T('named', 'void')
        else:
            rett = self.ret_type_of(fn)
        if fc is not None:
            fc.self_t = self_t
            fc.ret_t = rett
            fc.ret_ctype = self.ctype(rett)
        return '%s %s(%s)' % (self.ctype(rett), cn, ', '.join(params) if params else 'void')

    def ctor_inits(self, fn, rid):
        rkey = self.ix.qual[rid]
        inits = [c for c in fn.get('inner', []) if c.get('kind') == 'CXXCtorInitializer']
        out = []
        by_field = {}
        base_inits = []
        for ci in inits:
            if 'anyInit' in ci: by_field[ci['anyInit']['name']] = ci
            elif 'baseInit' in ci: base_inits.append(ci)
            elif 'delegatingInit' in ci: base_inits.append(ci)
            else: self.fail(ci, 'unknown ctor initializer')
        rec = self.ix.by_id[rid]
        # bases first
        for ci in base_inits:
            e = ci['inner'][0]
            bt = self.canon(parse_type((ci.get('baseInit') or ci.get('delegatingInit'))['desugaredQualType'] if 'desugaredQualType' in (ci.get('baseInit') or ci.get('delegatingInit')) else (ci.get('baseInit') or ci.get('delegatingInit'))['qualType']))
            out.extend(self.with_temps(lambda: [self.init_into(bt, '(*(%s *)self)' % self.ctype(bt), e)]))
        own = [c for c in rec.get('inner', []) if c.get('kind') == 'FieldDecl']
        # bases without explicit initializer are default-initialised: clang lists them too when the ctor is defined
        for fd in own:
            ft = self.canon(parse_type(fd['type'].get('desugaredQualType') or fd['type']['qualType']))
            ci = by_field.get(fd['name'])
            if ci is not None:
                e = ci['inner'][0]
                if ft.is_ref():
                    out.extend(self.with_temps(lambda: ['self->%s = %s;' % (fd['name'], addr_of(self.E(e)))]))
                else:
                    out.extend(self.with_temps(lambda: [self.init_into(ft, 'self->' + fd['name'], e)]))
            else:
                # clang always materialises CXXCtorInitializer (with CXXDefaultInitExpr / default ctor) for defined ctors
                # of class-type members; scalars without initializer stay indeterminate
                pass
        return out

    def with_temps(self, f):
        saved = self.fc.temps; self.fc.temps = []
        lines = f()
        decls = self.fc.temps; self.fc.temps = saved
        return decls + lines

    def new_temp(self, ctype):
        self.fc.ntemp += 1
        name = '__t%d' % self.fc.ntemp
        self.fc.temps.append('%s %s;' % (ctype, name))
        return name

    # initialise C lvalue `lv` of type t from initialiser expression node e
    def init_into(self, t, lv, e):
        e0 = self.strip_wrappers(e)
        k = e0.get('kind')
        if k == 'CXXDefaultInitExpr':
            # in-class initialiser of the field: find FieldDecl init. clang 14 JSON has no link; search by lv name
            fname = lv.split('->')[-1].split('.')[-1]
            rkey = self.fc.self_t.key() if self.fc.self_t else None
            for f, ft, fd in self.rec_fields(rkey):
                if f == fname and fd is not None:
                    for c in fd.get('inner', []):
                        if 'valueCategory' in c:
                            return self.init_into(t, lv, c)
            self.fail(e0, 'CXXDefaultInitExpr without in-class initialiser for ' + fname)
        if k in ('CXXConstructExpr', 'CXXTemporaryObjectExpr'):
            return self.construct_into(t, lv, e0)
        if k == 'CXXInheritedCtorInitExpr':
            # inheriting constructor: forward this constructor's own parameters to the base's constructor
            me = self.fc.root
            want = _sig_norm(me['type']['qualType'])
            fake = {'ctorType': {'qualType': want}, 'inner': [], 'kind': 'CXXConstructExpr'}
            ctor = self.find_ctor_decl(t, fake)
            if ctor is None: self.fail(e0, 'inherited constructor target not found in ' + t.key())
            cn = self.request_func(ctor)
            names = [p.get('name') or '__unnamed_%s' % p['id'][-4:] for p in self.params_of(me)]
            return '%s(%s);' % (cn, ', '.join(['(%s *)%s' % (self.ctype(t), addr_of(lv))] + names))
        if k == 'InitListExpr' and not (t.name in PRIM_C):
            return self.initlist_into(t, lv, e0)
        if k == 'ImplicitValueInitExpr' or k == 'CXXScalarValueInitExpr':
            return self.default_init_stmt(t, lv) if not (t.name in PRIM_C or t.kind == 'ptr') else '%s = 0;' % lv
        if t.kind == 'array':
            self.fail(e, 'array initialiser')
        return '%s = %s;' % (lv, self.E(e))

    def initlist_into(self, t, lv, e):
        key = t.key()
        r = stdmap.initlist_into_std(self, t, lv, e)
        if r is not None: return r
        if key in self.ix.records:
            fields = self.rec_fields(key)
            items = e.get('inner', [])
            out = []
            for (fname, ft, fd), it in zip(fields, items):
                out.append(self.init_into(ft, '%s.%s' % (lv, fname), it))
            for (fname, ft, fd) in fields[len(items):]:
                out.append(self.default_init_stmt(ft, '%s.%s' % (lv, fname)))
            return ' '.join(out)
        self.fail(e, 'InitListExpr for type ' + key)

    def strip_wrappers(self, e):
        while True:
            k = e.get('kind')
            if k in ('ExprWithCleanups', 'CXXBindTemporaryExpr', 'ConstantExpr', 'SubstNonTypeTemplateParmExpr') and e.get('inner'):
                e = e['inner'][0]
            elif k in ('ImplicitCastExpr',) and e.get('castKind') in ('NoOp', 'ConstructorConversion') and e.get('valueCategory') == 'prvalue':
                e = e['inner'][0]
            elif k == 'CXXFunctionalCastExpr' and e.get('castKind') in ('ConstructorConversion', 'NoOp'):
                e = e['inner'][0]
            elif k == 'MaterializeTemporaryExpr' and False:
                e = e['inner'][0]
            else:
                return e

    def ctor_kind(self, e, t):
        """classify a CXXConstructExpr: 'copy', 'move', 'default', 'other'"""
        ct = e.get('ctorType', {}).get('qualType', '')
        m = re.match(r'^void \((.*)\)', ct)
        ps = m.group(1) if m else ''
        args = e.get('inner', [])
        if ps == '' or ps == 'void':
            return 'default'
        try:
            pt = self.canon(parse_type(ps)) if ',' not in _strip_tpl(ps) else None
        except Cxx2cError:
            pt = None
        if pt is not None and pt.is_ref() and len(args) == 1:
            if pt.inner.key() == t.key() or self.ctype(pt.inner) == self.ctype(t):
                return 'copy' if pt.kind == 'ref' else 'move'
        return 'other'

    def construct_into(self, t, lv, e):
        """statement(s) constructing lvalue lv:t from CXXConstructExpr e"""
        kind = self.ctor_kind(e, t)
        args = e.get('inner', [])
        if e.get('elidable') and len(args) == 1:
            return self.init_into(t, lv, args[0])
        if kind in ('copy', 'move'):
            a = args[0]
            if self.is_trivially_copyable(t):
                return '%s = %s;' % (lv, self.Eval(a))
            if kind == 'copy':
                return '%s = %s;' % (lv, self.copy_expr(t, self.Eval(a)))
            return '%s = %s;' % (lv, self.move_expr(t, a))
        r = stdmap.construct_std(self, t, lv, e, kind)
        if r is not None: return r
        if t.name == 'OpenVolumeMesh::HandleIndexing':
            if kind == 'default': return self.default_init_stmt(t.args[1], lv)
            r = stdmap.construct_std(self, t.args[1], lv, e, kind)
            if r is not None: return r
        # OVM constructor
        ctor = self.find_ctor_decl(t, e)
        if ctor is None:
            if kind == 'default':
                return self.memberwise_default(t.key(), lv)
            self.fail(e, 'constructor not found for ' + t.key() + ' ' + e.get('ctorType', {}).get('qualType', ''))
        if e.get('zeroing'):
            pre = ''
        return self.call_ovm_stmt(ctor, addr_of(lv), args) + ';'

    def find_ctor_decl(self, t, e):
        key = t.key()
        if t.name == 'OpenVolumeMesh::HandleIndexing': return None
        rec = self.ix.records.get(key)
        if rec is None: self.fail(e, 'construct of unknown record ' + key)
        want = _sig_norm(e.get('ctorType', {}).get('qualType', ''))
        cands = []
        def scan(r):
            for c in r.get('inner', []):
                if c.get('kind') == 'CXXConstructorDecl' and _sig_norm(c['type']['qualType']) == want:
                    cands.append(c)
                elif c.get('kind') == 'FunctionTemplateDecl':
                    for cc in c.get('inner', []):
                        if cc.get('kind') == 'CXXConstructorDecl' and _sig_norm(cc['type']['qualType']) == want and cc['id'] not in self.ix.pattern:
                            cands.append(cc)
        scan(rec)
        for c in cands:
            d = self.ix.definition(c['id'])
            if d is not None: return d
        if cands:
            c = cands[0]
            if c.get('inherited') or any(k.get('kind') == 'CXXCtorInitializer' for k in c.get('inner', [])):
                return c
            # implicit/defaulted trivial ctor without definition
            if c.get('isImplicit') or c.get('explicitlyDefaulted'):
                return None
            raise Cxx2cError('cxx2c: constructor %s %s declared but not defined in this TU' % (key, want))
        return None

    def move_expr(self, t, a):
        """expression yielding the moved-from value of lvalue/xvalue arg a (source left empty)"""
        lv = self.Eval(a)
        r = stdmap.move_expr_std(self, t, lv)
        if r is not None: return r
        # OVM record: copy helper semantics are observationally equal for moved-from-unspecified; use deep copy
        return self.copy_expr(t, lv)

    # ------------------------------------------------------------------ calls
    def call_ovm_stmt(self, fn_any, self_ptr, arg_nodes, via_decl=None):
        cn = self.request_func(fn_any)
        if self.fc is not None:
            self.calls.setdefault(self.fc.cname, set()).add(cn)
            if cn in self.throwing: self.fc.stmt_throws = True
        d = self.ix.definition(self.ix.first.get(fn_any['id'], fn_any['id'])) or fn_any
        params = self.params_of(d)
        args = []
        if self_ptr is not None: args.append(self_ptr)
        if len(arg_nodes) > len(params):
            self.fail(fn_any, 'too many arguments (variadic?)')
        for i, p in enumerate(params):
            pt = self.canon(parse_type(p['type'].get('desugaredQualType') or p['type']['qualType']))
            if i < len(arg_nodes):
                a = arg_nodes[i]
                if a.get('kind') == 'CXXDefaultArgExpr':
                    a = self.default_arg(fn_any, d, i)
            else:
                a = self.default_arg(fn_any, d, i)
            args.append(self.pass_arg(pt, a))
        return '%s(%s)' % (cn, ', '.join(args))

    def default_arg(self, fn_any, d, i):
        # default argument expression lives on a (re)declaration's ParmVarDecl
        fid = self.ix.first.get(fn_any['id'], fn_any['id'])
        cand = [self.ix.by_id.get(fid), fn_any, d]
        for c in cand:
            if c is None: continue
            ps = self.params_of(c)
            if i < len(ps):
                for k in ps[i].get('inner', []):
                    if 'valueCategory' in k: return k
        self.fail(fn_any, 'default argument %d not found' % i)

    def pass_arg(self, pt, a):
        if pt.is_ref():
            return addr_of(self.E(a))
        if pt.kind == 'array':
            return self.E(a)
        return self.Eval(a)

    def Eval(self, a):
        """value of expression a as a C rvalue (for glvalue nodes: read of the lvalue)"""
        return self.E(a)

    def resolve_virtual(self, mdecl, obj_t):
        """devirtualise: find final overrider of mdecl in the configured dynamic type"""
        if not mdecl.get('virtual'): return mdecl
        dyn = self.dyn_type
        if dyn is None or dyn not in self.ix.records: return mdecl
        name = mdecl.get('name'); sig = mdecl['type']['qualType']
        # walk from dynamic type up to the declaring class
        def search(key):
            rec = self.ix.records.get(key)
            if rec is None: return None
            for c in rec.get('inner', []):
                if c.get('kind') == 'CXXMethodDecl' and c.get('name') == name and _same_sig(c['type']['qualType'], sig):
                    return c
            for b in rec.get('bases', []):
                bk = self.canon(parse_type(b['type'].get('desugaredQualType') or b['type']['qualType'])).key()
                r = search(bk)
                if r is not None: return r
            return None
        # only if dynamic type derives from the object's static type
        r = search(dyn)
        return r or mdecl

    # ------------------------------------------------------------------ expressions
    def E(self, n):
        k = n.get('kind')
        m = getattr(self, 'e_' + k, None)
        if m is None:
            self.fail(n, 'no rule for expression kind ' + str(k))
        return m(n)

    def e_ParenExpr(self, n): return '(' + self.E(n['inner'][0]) + ')'
    def e_ExprWithCleanups(self, n): return self.E(n['inner'][0])
    def e_CXXBindTemporaryExpr(self, n): return self.E(n['inner'][0])
    def e_ConstantExpr(self, n): return self.E(n['inner'][0])
    def e_SubstNonTypeTemplateParmExpr(self, n): return self.E(n['inner'][-1])
    def e_CXXThisExpr(self, n):
        if self.fc.lambda_caps is not None and 'this' in self.fc.lambda_caps:
            return self.fc.lambda_caps['this']
        return 'self'

    def std_trait_value(self, n):
        """`std::is_base_of<Base, Derived>::value` (a static member of a std class that is not in the dump): evaluated from the
        written expression and the class hierarchy of the index; anything else is a must-fire failure"""
        try:
            src = open(n['_file'], 'rb').read()
            b = n['range']['begin']; e = n['range']['end']
            text = src[b['offset']: e['offset'] + e.get('tokLen', 0)].decode(errors='replace')
        except Exception as ex:
            self.fail(n, 'std trait value: source text not available (%r)' % ex)
        md = re.match(r'^\s*decltype\s*\(\s*(\w+)\s*\)\s*::\s*value\s*$', text)
        if md:
            # value of a std::integral_constant<E, V> tag parameter: the enumerator V named in the parameter's type
            ps = [q for q in self.params_of(self.fc.root) if q.get('name') == md.group(1)]
            if len(ps) == 1:
                tq = ps[0]['type'].get('desugaredQualType') or ps[0]['type']['qualType']
                mi = re.match(r'^(?:const\s+)?std::integral_constant<\s*([\w:]+)\s*,\s*([\w:]+)\s*>\s*&?$', tq.strip())
                if mi:
                    ename = mi.group(2).split('::')[-1]; eq = mi.group(1)
                    hits = [v for (nm, v, q) in self.ix.enum_consts.values() if nm == ename and (q == eq or q.endswith('::' + eq.split('::')[-1]))]
                    if len(set(hits)) == 1: return '%d /*%s*/' % (hits[0], ename)
            self.fail(n, 'std trait value: cannot evaluate ' + text[:80])
        m = re.match(r'^\s*(?:std::)?is_base_of\s*<\s*([\w:]+)\s*,\s*([\w:]+)\s*>\s*::\s*value\s*$', text)
        if not m: self.fail(n, 'std trait value not evaluable: ' + text[:80])
        base_t = self.canon(parse_type(m.group(1)))
        try:
            der_t = self.canon(parse_type(m.group(2)))
            if der_t.key() not in self.ix.records: raise Cxx2cError('x')
        except Cxx2cError:
            # a template parameter of the enclosing instantiation: its single type argument
            targs = [c for c in self.fc.root.get('inner', []) if c.get('kind') == 'TemplateArgument' and 'type' in c]
            if len(targs) != 1: self.fail(n, 'std trait value: cannot resolve ' + m.group(2))
            der_t = self.canon(parse_type(targs[0]['type'].get('desugaredQualType') or targs[0]['type']['qualType']))
        dk = der_t.key()
        if dk not in self.ix.records:
            # the written type omits defaulted template arguments: the unique specialisation that extends it
            cand = [k for k in self.ix.records if k.startswith(dk[:-1] + ', ')]
            dfl = self.ix.template_defaults.get(der_t.name, {})
            if len(cand) != 1 and dfl:
                full = T('named', der_t.name, list(der_t.args) + [self.canon(parse_type(dfl[i])) for i in range(len(der_t.args), max(dfl) + 1) if i in dfl])
                cand = [full.key()] if full.key() in self.ix.records else []
            if len(cand) != 1: self.fail(n, 'std trait value: unknown class ' + dk)
            dk = cand[0]
        def bases(key, seen):
            rec = self.ix.records.get(key)
            if rec is None or key in seen: return
            seen.add(key)
            for bb in rec.get('bases', []):
                bk = self.canon(parse_type(bb['type'].get('desugaredQualType') or bb['type']['qualType'])).key()
                bases(bk, seen)
        seen = set(); bases(dk, seen)
        return '1 /*is_base_of*/' if base_t.key() in seen else '0 /*is_base_of*/'

    def e_IntegerLiteral(self, n):
        t = parse_type(self.qtype(n)).name
        suf = {'unsigned int': 'U', 'long': 'L', 'unsigned long': 'UL', 'long long': 'LL', 'unsigned long long': 'ULL'}.get(t, '')
        return str(n['value']) + suf
    def e_CXXBoolLiteralExpr(self, n): return '1' if n['value'] in (True, 'true') else '0'
    def e_CharacterLiteral(self, n): return str(n['value'])
    def e_FloatingLiteral(self, n):
        v = str(n['value'])
        if not re.search(r'[.eEn]', v): v += '.0'
        return v + ('f' if parse_type(self.qtype(n)).name == 'float' else '')
    def e_CXXNullPtrLiteralExpr(self, n): return '0'
    def e_GNUNullExpr(self, n): return '0'
    def e_StringLiteral(self, n): return '((char *)"")'
    def e_CXXScalarValueInitExpr(self, n): return '0'
    def e_ImplicitValueInitExpr(self, n): return '0'
    def e_UnaryExprOrTypeTraitExpr(self, n):
        if n.get('name') != 'sizeof': self.fail(n, 'type trait ' + str(n.get('name')))
        if 'argType' in n:
            return 'sizeof(%s)' % self.ctype(self.canon(parse_type(n['argType'].get('desugaredQualType') or n['argType']['qualType'])))
        return 'sizeof(%s)' % self.ctype(self.T_of(n['inner'][0]).strip_ref())

    def e_DeclRefExpr(self, n):
        rd = n['referencedDecl']
        rk = rd['kind']
        if rk == 'EnumConstantDecl':
            ec = self.ix.enum_consts.get(rd['id'])
            if ec is None: self.fail(n, 'enum constant without value: ' + rd.get('name', ''))
            return '%d /*%s*/' % (ec[1], ec[0])
        if rk in ('VarDecl', 'ParmVarDecl', 'BindingDecl', 'DecompositionDecl'):
            did = rd['id']
            if did in self.fc.aliases: return self.fc.aliases[did]
            if self.fc.lambda_caps is not None and did in self.fc.lambda_caps:
                return self.fc.lambda_caps[did]
            name = self.fc.renames.get(did, rd.get('name') or '__unnamed_%s' % did[-4:])
            d = self.ix.by_id.get(did)
            if d is None and rk == 'VarDecl' and rd.get('name') == 'value' and n.get('nonOdrUseReason') == 'constant':
                return self.std_trait_value(n)
            dt = None
            if d is not None and 'type' in d:
                dt = self.canon(parse_type(d['type'].get('desugaredQualType') or d['type']['qualType']))
            if d is not None and d.get('kind') == 'VarDecl' and did in self.ix.qual:
                return self.global_var(d)
            if dt is not None and dt.is_ref():
                return '(*%s)' % name
            return name
        if rk in ('VarTemplateSpecializationDecl',):
            d = self.ix.by_id.get(rd['id'])
            v = None
            for c in (d or {}).get('inner', []):
                if 'valueCategory' in c:
                    v = self.const_eval(c)
            if v is None: self.fail(n, 'variable template specialisation without constant value: ' + rd.get('name', '') + ' ' + str([c.get('type', {}).get('qualType') for c in (d or {}).get('inner', []) if c.get('kind') == 'TemplateArgument']))
            return str(v) + ('UL' if parse_type(self.qtype(n)).name in ('size_t', 'unsigned long') else '')
        if rk in FUNC_KINDS:
            self.fail(n, 'function reference outside call position: ' + rd.get('name', ''))
        self.fail(n, 'DeclRefExpr to ' + rk)

    def const_eval(self, n):
        """integer constant expressions over literals, sizeof, + - * / and other variable-template constants"""
        k = n.get('kind')
        if k in ('IntegerLiteral', 'CXXBoolLiteralExpr', 'CharacterLiteral'): return _const_value(n)
        if k == 'ConstantExpr' and 'value' in n: return _const_value(n)
        if k in ('ImplicitCastExpr', 'ParenExpr', 'CStyleCastExpr', 'CXXStaticCastExpr', 'CXXFunctionalCastExpr', 'ExprWithCleanups', 'ConstantExpr', 'SubstNonTypeTemplateParmExpr'):
            return self.const_eval(n['inner'][-1])
        if k == 'UnaryExprOrTypeTraitExpr' and n.get('name') == 'sizeof':
            if 'argType' in n: t = self.canon(parse_type(n['argType'].get('desugaredQualType') or n['argType']['qualType']))
            else: t = self.T_of(n['inner'][0]).strip_ref()
            return self.sizeof_type(t)
        if k == 'UnaryOperator' and n.get('opcode') in ('+', '-'):
            v = self.const_eval(n['inner'][0])
            return v if v is None or n['opcode'] == '+' else -v
        if k == 'BinaryOperator':
            a = self.const_eval(n['inner'][0]); b = self.const_eval(n['inner'][1])
            if a is None or b is None: return None
            op = n['opcode']
            return {'+': a + b, '-': a - b, '*': a * b}.get(op) if op in '+-*' else (a // b if op == '/' and b else None)
        if k == 'DeclRefExpr' and n['referencedDecl']['kind'] in ('VarTemplateSpecializationDecl', 'VarDecl'):
            d = self.ix.by_id.get(n['referencedDecl']['id'])
            for c in (d or {}).get('inner', []):
                if 'valueCategory' in c: return self.const_eval(c)
        return None

    def sizeof_type(self, t):
        t = t.strip_ref()
        if t.kind == 'named' and t.name == 'std::array':
            e = self.sizeof_type(t.args[0]); n = int(re.sub(r'[uUlL]', '', str(t.args[1])))
            return None if e is None else e * n
        if t.kind == 'ptr': return 8
        if self.is_enum(t): return {'_Bool': 1, 'char': 1, 'signed char': 1, 'unsigned char': 1, 'short': 2, 'unsigned short': 2, 'int': 4, 'unsigned int': 4, 'long': 8, 'unsigned long': 8}.get(self.enum_info(t.key()))
        return {'_Bool': 1, 'char': 1, 'signed char': 1, 'unsigned char': 1, 'short': 2, 'unsigned short': 2, 'int': 4, 'unsigned int': 4, 'long': 8, 'unsigned long': 8, 'float': 4, 'double': 8, 'long long': 8, 'unsigned long long': 8}.get(self.ctype(t) if t.name in PRIM_C else None)

    def _is_global(self, d):
        return d['id'] in self.ix.qual and d.get('_local') is not True and d.get('id') in getattr(self, '_globals', self._collect_globals())

    def _collect_globals(self):
        self._globals = set()
        return self._globals

    def global_var(self, d):
        """namespace/class-scope constant: integral constants inline; class-type constants through an init function"""
        v = None
        dd = d
        # find the declaration carrying the initialiser (out-of-line definition of a static member)
        cands = [d] + [n for n in self.ix.by_id.values() if n.get('kind') == 'VarDecl' and n.get('name') == d.get('name') and (n.get('previousDecl') == d['id'] or n.get('parentDeclContextId') == self.ix.parent_rec.get(d['id']))]
        init = None
        for c in cands:
            for k in c.get('inner', []):
                if 'valueCategory' in k: init = k; dd = c
        if init is None:
            self.fail(d, 'global variable without initialiser: ' + d.get('name', ''))
        t = self.canon(parse_type(d['type'].get('desugaredQualType') or d['type']['qualType']))
        if t.name in PRIM_C or self.is_enum(t):
            v = _const_value(init)
            if v is None: v = self.const_eval(init)
            if v is None:
                # constant initialiser we cannot fold (e.g. numeric_limits<T>::max()): emit the expression itself
                prev = self.fc
                try:
                    if self.fc is None:
                        self.fc = FuncCtx('global'); self.fc.root = dd; self.fc.self_t = None
                    return '(%s)' % self.E(init)
                finally:
                    self.fc = prev
            return str(v)
        gname = 'ovm_global_' + sanitize(self.ix.qual.get(d['id'], d['name']))
        if gname not in self.func_text:
            self.func_text[gname] = None
            prev = self.fc
            self.fc = FuncCtx(gname); self.fc.root = dd; self.fc.self_t = None
            ct = self.ctype(t)
            body = self.with_temps(lambda: ['%s r;' % ct, self.init_into(t, 'r', init), 'return r;'])
            self.fc = prev
            self.func_text[gname] = ('%s %s(void)' % (ct, gname), body, None)
            self.func_info[gname] = dict(qual=self.ix.qual.get(d['id']) + ' (constant, as init function)', loc=loc_of(dd), loops=[])
        tmp = self.new_temp(self.ctype(t))
        return '(*(%s = %s(), &%s))' % (tmp, gname, tmp)

    def field_is_ref(self, n):
        t = n.get('type', {})
        return False

    def e_MemberExpr(self, n):
        base = n['inner'][0]
        md = self.ix.by_id.get(n.get('referencedMemberDecl'))
        if md is None: return stdmap.member_field(self, n, base)
        if md.get('kind') == 'FieldDecl':
            # strip derived-to-base casts: fields are flattened into the derived struct
            b = base
            while b.get('kind') == 'ImplicitCastExpr' and b.get('castKind') in ('DerivedToBase', 'UncheckedDerivedToBase', 'NoOp'):
                b = b['inner'][0]
            be = self.E(b)
            ft = self.canon(parse_type(md['type'].get('desugaredQualType') or md['type']['qualType']))
            if n.get('isArrow'):
                s = '%s->%s' % (_prim(be), md['name'])
            else:
                s = '%s.%s' % (_prim(be), md['name'])
            if ft.is_ref(): return '(*%s)' % s
            return s
        if md.get('kind') == 'VarDecl':
            return self.global_var(md)
        if md.get('kind') == 'EnumConstantDecl':
            ec = self.ix.enum_consts[md['id']]; return str(ec[1])
        self.fail(n, 'MemberExpr to ' + md.get('kind', '?') + ' outside call position')

    def cast_to(self, n, inner_expr):
        t = self.T_of(n)
        return '((%s)(%s))' % (self.ctype(t), inner_expr)

    def e_cast(self, n):
        ck = n.get('castKind')
        sub = n['inner'][-1]
        if ck in ('LValueToRValue', 'NoOp', 'ConstructorConversion', 'UserDefinedConversion', 'ArrayToPointerDecay', 'FunctionToPointerDecay', 'AtomicToNonAtomic'):
            return self.E(sub)
        if ck in ('IntegralCast', 'IntegralToFloating', 'FloatingToIntegral', 'FloatingCast', 'BooleanToSignedIntegral', 'BitCast', 'IntegralToPointer', 'PointerToIntegral'):
            return self.cast_to(n, self.E(sub))
        if ck in ('IntegralToBoolean', 'PointerToBoolean', 'FloatingToBoolean'):
            return '((%s) != 0)' % self.E(sub)
        if ck == 'NullToPointer': return '0'
        if ck == 'ToVoid': return '((void)(%s))' % self.E(sub)
        if ck in ('DerivedToBase', 'UncheckedDerivedToBase', 'BaseToDerived'):
            tt = self.T_of(n); st = self.T_of(sub)
            if tt.kind == 'ptr':
                if self.ctype(tt) == self.ctype(st): return self.E(sub)
                return '((%s)(%s))' % (self.ctype(tt), self.E(sub))
            if self.ctype(tt.strip_ref()) == self.ctype(st.strip_ref()): return self.E(sub)
            if n.get('valueCategory') == 'prvalue':
                # slicing a prvalue: materialise
                tmp = self.new_temp(self.ctype(st))
                return '(*(%s *)(%s = %s, &%s))' % (self.ctype(tt), tmp, self.E(sub), tmp)
            return '(*(%s *)%s)' % (self.ctype(tt.strip_ref()), addr_of(self.E(sub)))
        if ck == 'Dependent': self.fail(n, 'dependent cast (uninstantiated template)')
        self.fail(n, 'no rule for cast kind ' + str(ck))
    e_ImplicitCastExpr = e_cast
    e_CStyleCastExpr = e_cast
    e_CXXStaticCastExpr = e_cast
    e_CXXFunctionalCastExpr = e_cast
    e_CXXConstCastExpr = e_cast
    e_CXXReinterpretCastExpr = e_cast

    def e_UnaryOperator(self, n):
        op = n['opcode']; s = self.E(n['inner'][0])
        if op == '*': return deref(s)
        if op == '&': return addr_of(s)
        if op in ('++', '--'):
            return '(%s%s)' % (s, op) if n.get('isPostfix') else '(%s%s)' % (op, s)
        if op in ('!', '-', '~', '+'): return '(%s(%s))' % (op, s)
        if op == '__extension__': return s
        self.fail(n, 'unary operator ' + op)

    def e_BinaryOperator(self, n):
        op = n['opcode']; a, b = n['inner']
        if op == ',':
            return '(%s, %s)' % (self.E(a), self.E(b))
        if op == '=':
            at = self.T_of(a)
            if not (at.name in PRIM_C or at.kind == 'ptr' or self.is_enum(at)):
                self.fail(n, 'builtin assignment on non-scalar ' + at.key())
        return '(%s %s %s)' % (self.E(a), op, self.E(b))
    e_CompoundAssignOperator = e_BinaryOperator

    def e_ConditionalOperator(self, n):
        c, a, b = n['inner']
        if n.get('valueCategory') == 'lvalue':
            return '(*(%s ? %s : %s))' % (self.E(c), addr_of(self.E(a)), addr_of(self.E(b)))
        return '(%s ? %s : %s)' % (self.E(c), self.E(a), self.E(b))

    def e_ArraySubscriptExpr(self, n):
        a, i = n['inner']
        return '%s[%s]' % (_prim(self.E(a)), self.E(i))

    def e_InitListExpr(self, n):
        t = self.T_of(n)
        if t.name in PRIM_C or t.kind == 'ptr' or self.is_enum(t):
            return self.E(n['inner'][0]) if n.get('inner') else '0'
        tmp = self.new_temp(self.ctype(t))
        st = self.initlist_into(t, tmp, n)
        return '(%s %s)' % (_stmts_to_commas(st), tmp)

    def e_MaterializeTemporaryExpr(self, n):
        sub = n['inner'][0]
        t = self.T_of(n).strip_ref()
        s0 = self.strip_wrappers(sub)
        tmp = self.new_temp(self.ctype(t))
        if s0.get('kind') in ('CXXConstructExpr', 'CXXTemporaryObjectExpr') or (s0.get('kind') == 'InitListExpr' and t.name not in PRIM_C):
            st = self.init_into(t, tmp, s0)
            return '(*(%s &%s))' % (_stmts_to_commas(st), tmp)
        return '(*(%s = %s, &%s))' % (tmp, self.E(sub), tmp)

    def e_CXXConstructExpr(self, n):
        t = self.T_of(n).strip_ref()
        kind = self.ctor_kind(n, t)
        args = n.get('inner', [])
        if n.get('elidable') and len(args) == 1:
            return self.E(args[0])
        if kind in ('copy', 'move'):
            if self.is_trivially_copyable(t): return self.Eval(args[0])
            if kind == 'copy': return self.copy_expr(t, self.Eval(args[0]))
            return self.move_expr(t, args[0])
        tmp = self.new_temp(self.ctype(t))
        st = self.construct_into(t, tmp, n)
        return '(%s %s)' % (_stmts_to_commas(st), tmp)
    e_CXXTemporaryObjectExpr = e_CXXConstructExpr

    def e_CXXStdInitializerListExpr(self, n):
        self.fail(n, 'initializer_list outside a supported constructor')

    def e_CXXDefaultArgExpr(self, n):
        self.fail(n, 'CXXDefaultArgExpr outside call')

    def callee_decl(self, c):
        """resolve callee expression to (kind, decl-ref dict, object expr node or None)"""
        while c.get('kind') in ('ImplicitCastExpr', 'ParenExpr'):
            c = c['inner'][0]
        if c.get('kind') == 'DeclRefExpr':
            return ('free', c['referencedDecl'], None, c)
        if c.get('kind') == 'MemberExpr':
            return ('member', {'id': c.get('referencedMemberDecl'), 'name': c.get('name')}, c['inner'][0], c)
        self.fail(c, 'unsupported callee expression')

    def e_CallExpr(self, n):
        kind, rd, obj, cnode = self.callee_decl(n['inner'][0])
        args = n['inner'][1:]
        d = self.ix.by_id.get(rd['id'])
        if d is not None and rd['id'] in self.ix.qual or (d is not None and self.ix.first.get(rd['id']) in self.ix.qual):
            # OVM free function or static member
            return self.wrap_ref_ret(d, self.call_ovm_stmt(d, None, args))
        return stdmap.free_call(self, n, rd, args)

    def wrap_ref_ret(self, d, callstr):
        dd = self.ix.definition(self.ix.first.get(d['id'], d['id'])) or d
        if dd.get('kind') in ('CXXConstructorDecl',): return callstr
        rt = self.ret_type_of(dd)
        if rt.is_ref(): return '(*%s)' % callstr
        return callstr

    def e_CXXMemberCallExpr(self, n):
        kind, rd, obj, cnode = self.callee_decl(n['inner'][0])
        args = n['inner'][1:]
        if kind != 'member': self.fail(n, 'member call with non-member callee')
        d = self.ix.by_id.get(rd['id'])
        isarrow = cnode.get('isArrow')
        if d is not None and (rd['id'] in self.ix.qual):
            d = self.resolve_virtual(d, None)
            if d.get('kind') == 'CXXConversionDecl' or True:
                pass
            objp = self.obj_ptr(obj, isarrow, d)
            return self.wrap_ref_ret(d, self.call_ovm_stmt(d, objp, args))
        return stdmap.member_call(self, n, cnode, obj, isarrow, args)

    def obj_ptr(self, obj, isarrow, mdecl):
        """pointer to the object a member function is called on, typed as the method's class"""
        rid = self.ix.parent_rec.get(mdecl['id']) or self.ix.parent_rec.get(self.ix.first.get(mdecl['id'], mdecl['id']))
        want = self.ctype(self.canon(parse_type(self.ix.qual[rid]))) + ' *' if rid else None
        b = obj
        # strip derived-to-base casts; we cast the pointer ourselves
        while b.get('kind') == 'ImplicitCastExpr' and b.get('castKind') in ('DerivedToBase', 'UncheckedDerivedToBase', 'NoOp'):
            b = b['inner'][0]
        bt = self.T_of(b)
        if isarrow:
            p = self.E(b); have = self.ctype(bt)
        else:
            if b.get('valueCategory') == 'prvalue':
                # member call on a prvalue object (no MaterializeTemporaryExpr in C++14-style ASTs for some cases)
                tmp = self.new_temp(self.ctype(bt))
                p = '(%s = %s, &%s)' % (tmp, self.E(b), tmp)
            else:
                p = addr_of(self.E(b))
            have = self.ctype(bt.strip_ref()) + ' *'
        if want and have.replace(' ', '') != want.replace(' ', ''):
            return '((%s)%s)' % (want, p)
        return p

    def e_CXXOperatorCallExpr(self, n):
        kind, rd, obj, cnode = self.callee_decl(n['inner'][0])
        args = n['inner'][1:]
        d = self.ix.by_id.get(rd['id'])
        if d is not None and (rd['id'] in self.ix.qual or self.ix.first.get(rd['id']) in self.ix.qual):
            if d.get('kind') == 'CXXMethodDecl' and d.get('storageClass') != 'static':
                d = self.resolve_virtual(d, None)
                # implicit/defaulted assignment of trivially copyable class: plain C assignment
                if d.get('name') == 'operator=' and self.ix.definition(self.ix.first.get(d['id'], d['id'])) is None or \
                   (d.get('name') == 'operator=' and (d.get('isImplicit') or d.get('explicitlyDefaulted'))):
                    lt = self.T_of(args[0]).strip_ref()
                    if self.is_trivially_copyable(lt):
                        return '(*(%s = %s, %s))' % (self.E(args[0]), self.Eval(args[1]), addr_of(self.E(args[0])))
                    if d.get('isImplicit') or d.get('explicitlyDefaulted'):
                        return self.assign_nontrivial(lt, args[0], args[1])
                objp = self.obj_ptr(args[0], False, d)
                return self.wrap_ref_ret(d, self.call_ovm_stmt(d, objp, args[1:]))
            return self.wrap_ref_ret(d, self.call_ovm_stmt(d, None, args))
        return stdmap.operator_call(self, n, rd, args)

    def assign_nontrivial(self, lt, lhs, rhs):
        """implicit copy/move assignment of a class with container members: memberwise"""
        r = stdmap.assign_std(self, lt, lhs, rhs)
        if r is not None: return r
        l = self.E(lhs)
        rv = self.Eval(rhs)
        return '(*(%s = %s, %s))' % (l, self.copy_expr(lt, rv), addr_of(l))

    def e_LambdaExpr(self, n):
        t = self.T_of(n)
        rec = n['inner'][0]
        fields = [c for c in rec.get('inner', []) if c.get('kind') == 'FieldDecl']
        inits = [c for c in n['inner'][1:] if c.get('kind') != 'CompoundStmt']
        tmp = self.new_temp(self.ctype(t))
        if not fields: return tmp
        parts = []
        for i, (fd, ie) in enumerate(zip(fields, inits)):
            ft = self.canon(parse_type(fd['type'].get('desugaredQualType') or fd['type']['qualType']))
            if ft.is_ref(): parts.append('%s.cap%d = %s' % (tmp, i, addr_of(self.E(ie))))
            else: parts.append(_stmts_to_commas(self.init_into(ft, '%s.cap%d' % (tmp, i), ie)).rstrip(','))
        return '(%s, %s)' % (', '.join(parts), tmp)

    def exc_code(self, key):
        key = key.replace('const ', '').strip()
        if key not in self.exc_codes: self.exc_codes[key] = 10 + len(self.exc_codes)
        return self.exc_codes[key]

    def throw_code(self, n):
        inner = [c for c in n.get('inner', []) if c.get('kind')]
        if not inner: return None           # rethrow
        return self.exc_code(self.T_of(inner[0]).strip_ref().key())

    def propagate(self):
        if self.fc.try_stack: return 'goto %s;' % self.fc.try_stack[-1]
        return self.return_zero()

    def e_CXXThrowExpr(self, n):
        self.fc.may_throw = True; self.direct_throw.add(self.fc.cname)
        c = self.throw_code(n)
        return '(ovm_exc = %s)' % (c if c is not None else 'ovm_exc')

    # ------------------------------------------------------------------ statements
    def stmt(self, n, top=False):
        k = n.get('kind')
        if k is None: return []
        self.cur_loc = loc_of(n) if 'range' in n else self.cur_loc
        m = getattr(self, 's_' + k, None)
        if k in ('DeclStmt',) or (m is None and 'valueCategory' in n):
            self.fc.stmt_throws = False
            lines = m(n) if m is not None else self.expr_stmt(n)
            if self.fc.stmt_throws:
                lines = lines + ['if (ovm_exc) { %s }' % self.propagate()]
                self.fc.stmt_throws = False
            return lines
        if m is not None:
            return m(n) if k != 'CompoundStmt' else m(n, top)
        if 'valueCategory' in n:
            return self.expr_stmt(n)
        self.fail(n, 'no rule for statement kind ' + k)

    def expr_stmt(self, n):
        # drop stream output statements entirely (std::cerr << ...)
        tq = self.qtype(n)
        if 'basic_ostream' in tq:
            return ['/* stream output dropped: %s */;' % loc_of(n)]
        if 'basic_string<char' in tq and self._is_string_assignment(n):
            return ['/* string bookkeeping dropped (contents of std::string are not modelled): %s */;' % loc_of(n)]
        if n.get('kind') == 'CXXThrowExpr' or (n.get('kind') == 'ExprWithCleanups' and n['inner'][0].get('kind') == 'CXXThrowExpr'):
            self.fc.may_throw = True; self.direct_throw.add(self.fc.cname)
            t = n if n.get('kind') == 'CXXThrowExpr' else n['inner'][0]
            c = self.throw_code(t)
            return ['{ %s %s }' % ('ovm_exc = %d;' % c if c is not None else '', self.propagate())]
        def f():
            e = self.E(n)
            return [strip_parens(e) + ';']
        return self.with_temps(f)

    def _is_string_assignment(self, n):
        while n.get('kind') in ('ExprWithCleanups', 'ParenExpr'): n = n['inner'][0]
        if n.get('kind') != 'CXXOperatorCallExpr': return False
        c = n['inner'][0]
        while c.get('kind') in ('ImplicitCastExpr',): c = c['inner'][0]
        return c.get('kind') == 'DeclRefExpr' and c['referencedDecl'].get('name') in ('operator=', 'operator+=')

    def return_zero(self):
        if self.fc.ret_ctype == 'void': return 'return;'
        if self.fc.ret_ctype.endswith('*') or self.fc.ret_ctype in PRIM_C.values(): return 'return 0;'
        return 'return (%s){0};' % self.fc.ret_ctype

    def s_CompoundStmt(self, n, top=False):
        out = []
        for c in n.get('inner', []):
            out.extend(self.stmt(c))
        if top: return out
        return ['{'] + ['  ' + l for l in out] + ['}']

    def s_NullStmt(self, n): return [';']
    def s_BreakStmt(self, n): return ['break;']
    def s_ContinueStmt(self, n): return ['continue;']

    def s_DeclStmt(self, n):
        out = []
        for d in n.get('inner', []):
            k = d.get('kind')
            if k == 'VarDecl': out.extend(self.vardecl(d))
            elif k in ('TypeAliasDecl', 'TypedefDecl', 'UsingDecl', 'StaticAssertDecl', 'CXXRecordDecl', 'UsingDirectiveDecl'): pass
            else: self.fail(d, 'declaration kind in DeclStmt: ' + str(k))
        return out

    def vardecl(self, d):
        t = self.canon(parse_type(d['type'].get('desugaredQualType') or d['type']['qualType']))
        name = d['name']
        init = None
        for c in d.get('inner', []):
            if 'valueCategory' in c or c.get('kind') in ('InitListExpr',): init = c
        if d.get('storageClass') == 'static':
            self.fail(d, 'static local variable')
        def f():
            if t.is_ref():
                if init is None: self.fail(d, 'reference without initialiser')
                i0 = self.strip_wrappers(init)
                if i0.get('kind') == 'MaterializeTemporaryExpr':
                    # lifetime-extended temporary: value variable + pointer
                    vt = t.inner
                    vname = name + '__v'
                    sub = i0['inner'][0]
                    s0 = self.strip_wrappers(sub)
                    lines = ['%s %s;' % (self.ctype(vt), vname)]
                    if s0.get('kind') in ('CXXConstructExpr', 'CXXTemporaryObjectExpr', 'InitListExpr'):
                        lines.append(self.init_into(vt, vname, s0))
                    else:
                        lines.append('%s = %s;' % (vname, self.E(sub)))
                    lines.append('%s %s = &%s;' % (self.ctype(t), name, vname))
                    return lines
                lv = self.E(init)
                alias = self.try_alias(d, init, lv)
                if alias: return ['/* reference %s lowered to re-evaluation of %s */' % (name, lv)]
                return ['%s %s = %s;' % (self.ctype(t), name, addr_of(lv))]
            if t.kind == 'array':
                if init is None: return ['%s %s[%s];' % (self.ctype(t.inner), name, t.name)]
                i0 = self.strip_wrappers(init)
                if i0.get('kind') == 'InitListExpr' and (t.inner.name in PRIM_C or self.is_enum(t.inner)):
                    # array of scalars with a braced list: element-wise, remaining elements zero as in C++
                    items = [self.Eval(x) for x in i0.get('inner', []) if x.get('kind') != 'ImplicitValueInitExpr']
                    return ['%s %s[%s] = {%s};' % (self.ctype(t.inner), name, t.name, ', '.join(items) if items else '0')]
                self.fail(d, 'array with initialiser')
            ct = self.ctype(t)
            if init is None:
                return ['%s %s;' % (ct, name)]
            i0 = self.strip_wrappers(init)
            if i0.get('kind') in ('CXXConstructExpr', 'CXXTemporaryObjectExpr') or (i0.get('kind') == 'InitListExpr' and not (t.name in PRIM_C or t.kind == 'ptr' or self.is_enum(t))):
                return ['%s %s;' % (ct, name), self.init_into(t, name, i0)]
            return ['%s %s = %s;' % (ct, name, self.E(init))]
        lines = self.with_temps(f)
        return lines

    def try_alias(self, d, init, lv):
        """lower `T& r = <pure lvalue>` to re-evaluation (DESIGN §2 fact 13) when safe"""
        if not self.cfg.get('alias_refs', True): return False
        if not self._pure_lvalue(init):
            return False
        # variables mentioned by the initialiser must not be assigned while r is in scope; we approximate the scope
        # by the enclosing function body and check all writes in the function
        used = set()
        self._collect_declrefs(init, used)
        if self._assigned_in_function(used, d):
            self.fc.ptr_refs.append((d.get('name'), loc_of(d)))
            return False
        self.fc.aliases[d['id']] = lv
        return True

    def _pure_lvalue(self, n):
        k = n.get('kind')
        if k in ('DeclRefExpr',): return n['referencedDecl']['kind'] in ('VarDecl', 'ParmVarDecl')
        if k == 'MemberExpr':
            md = self.ix.by_id.get(n.get('referencedMemberDecl'))
            return md is not None and md.get('kind') == 'FieldDecl' and self._pure_lvalue(n['inner'][0])
        if k in ('ImplicitCastExpr', 'ParenExpr', 'CXXThisExpr', 'IntegerLiteral') or k == 'CXXConstructExpr' and self.is_trivially_copyable(self.T_of(n).strip_ref()):
            return all(self._pure_lvalue(c) for c in n.get('inner', []))
        if k == 'UnaryOperator' and n.get('opcode') == '*': return self._pure_lvalue(n['inner'][0])
        if k == 'BinaryOperator' and n.get('opcode') in ('+', '-', '*', '/', '%'): return all(self._pure_lvalue(c) for c in n['inner'])
        if k == 'CXXOperatorCallExpr':
            kind, rd, obj, cnode = self.callee_decl(n['inner'][0])
            if rd.get('name') in ('operator[]', 'operator*'):
                return all(self._pure_lvalue(c) for c in n['inner'][1:])
            return False
        if k == 'CXXMemberCallExpr':
            cn = n['inner'][0]
            if cn.get('kind') == 'MemberExpr' and cn.get('name') in ('idx', 'uidx', 'size'):
                return self._pure_lvalue(cn['inner'][0]) and all(self._pure_lvalue(c) for c in n['inner'][1:])
            return False
        return False

    def _collect_declrefs(self, n, acc):
        if n.get('kind') == 'DeclRefExpr' and n['referencedDecl']['kind'] in ('VarDecl', 'ParmVarDecl'):
            acc.add(n['referencedDecl']['id'])
        for c in n.get('inner', []): self._collect_declrefs(c, acc)

    def _assigned_in_function(self, ids, refdecl):
        fn = self.func_text and None
        root = self.fc.root
        found = [False]
        def walk(n):
            if found[0]: return
            k = n.get('kind')
            tgt = None
            if k in ('BinaryOperator', 'CompoundAssignOperator') and (n.get('opcode', '').endswith('=') and n.get('opcode') not in ('==', '!=', '<=', '>=')):
                tgt = n['inner'][0]
            elif k == 'UnaryOperator' and n.get('opcode') in ('++', '--'):
                tgt = n['inner'][0]
            elif k == 'CXXOperatorCallExpr':
                kind, rd, obj, cnode = self.callee_decl(n['inner'][0])
                if rd.get('name') in ('operator=', 'operator++', 'operator--', 'operator+=', 'operator-='):
                    tgt = n['inner'][1]
            if tgt is not None:
                t = tgt
                while t.get('kind') in ('ParenExpr', 'ImplicitCastExpr'): t = t['inner'][0]
                if t.get('kind') == 'DeclRefExpr' and t['referencedDecl'].get('id') in ids:
                    # the range-for increment of __begin is outside the loop variable's scope: allowed
                    if not t['referencedDecl'].get('name', '').startswith('__begin'):
                        found[0] = True
            for c in n.get('inner', []): walk(c)
        walk(root)
        return found[0]

    def s_ReturnStmt(self, n):
        if not n.get('inner'): return ['return;']
        e = n['inner'][0]
        def f():
            if self.fc.ret_t.is_ref():
                return ['return %s;' % addr_of(self.E(e))]
            e0 = self.strip_wrappers(e)
            rt = self.fc.ret_t
            if e0.get('kind') in ('CXXConstructExpr', 'CXXTemporaryObjectExpr') and not self.is_trivially_copyable(rt):
                kind = self.ctor_kind(e0, rt)
                if kind == 'move' or (kind == 'copy' and e0.get('elidable')):
                    # return of a local (NRVO / implicit move): ownership transfer
                    a = e0['inner'][0]
                    if self._is_local_ref(a):
                        return ['return %s;' % self.Eval(a)]
            if e0.get('kind') == 'InitListExpr' and not (rt.name in PRIM_C or rt.kind == 'ptr' or self.is_enum(rt)):
                tmp = self.new_temp(self.ctype(rt))
                return [self.initlist_into(rt, tmp, e0), 'return %s;' % tmp]
            return ['return %s;' % self.E(e)]
        return self.with_temps(f)

    def _is_local_ref(self, a):
        while a.get('kind') in ('ImplicitCastExpr', 'ParenExpr') or (a.get('kind') == 'CallExpr' and False):
            a = a['inner'][0]
        if a.get('kind') == 'DeclRefExpr' and a['referencedDecl']['kind'] == 'VarDecl':
            d = self.ix.by_id.get(a['referencedDecl']['id'])
            if d is not None:
                t = self.canon(parse_type(d['type'].get('desugaredQualType') or d['type']['qualType']))
                return not t.is_ref() and d.get('storageClass') != 'static'
        return False

    def cond_expr(self, c):
        return self.E(c)

    def s_IfStmt(self, n):
        inner = list(n['inner'])
        pre = []
        if n.get('hasInit'):
            pre.extend(self.stmt(inner.pop(0)))
        if n.get('hasVar'):
            pre.extend(self.stmt(inner.pop(0)))
        cond = inner[0]; then = inner[1]; els = inner[2] if len(inner) > 2 else None
        self.fc.stmt_throws = False
        saved = self.fc.temps; self.fc.temps = []
        if n.get('isConstexpr'):
            # if constexpr in an instantiated template: the condition is a ConstantExpr carrying its value; the discarded
            # branch is not instantiated (clang leaves a NullStmt or nothing)
            v = cond.get('value') if cond.get('kind') == 'ConstantExpr' else None
            if v in ('true', 'false', True, False):
                self.fc.temps = saved
                taken = then if v in ('true', True) else els
                return pre + (self.block(taken) if taken is not None else [])
            ce = self.E(cond)
        else:
            ce = self.E(cond)
        decls = self.fc.temps; self.fc.temps = saved
        if self.fc.stmt_throws:
            self.fc.stmt_throws = False
            cn_ = '__c%d' % (self.fc.ntemp + 1); self.fc.ntemp += 1
            decls = decls + ['_Bool %s = %s;' % (cn_, strip_parens(ce)), 'if (ovm_exc) { %s }' % self.propagate()]
            ce = cn_
        out = pre + decls + ['if (%s)' % strip_parens(ce)] + self.block(then)
        if els is not None:
            out += ['else'] + self.block(els)
        if pre: out = ['{'] + ['  ' + l for l in out] + ['}']
        return out

    def block(self, s):
        lines = self.stmt(s)
        if s.get('kind') == 'CompoundStmt': return lines
        return ['{'] + ['  ' + l for l in lines] + ['}']

    def loop_contract(self, n, kind):
        o = self.fc.loop_ord; self.fc.loop_ord += 1
        self.fc.loops.append((o, kind, loc_of(n)))
        c = self.contracts.get(self.fc.cname, {}).get('loops', {}).get(o)
        return o, (c or '')

    def lc_with_temps(self, lc, decls):
        names = [d.split()[-1].rstrip(';') for d in decls]
        if not lc or not names: return lc
        return re.sub(r'__CPROVER_assigns\(([^\n]*)\)', lambda m: '__CPROVER_assigns(%s, %s)' % (m.group(1), ', '.join(names)) if m.group(1).strip() else '__CPROVER_assigns(%s)' % ', '.join(names), lc, count=1)

    def s_ForStmt(self, n):
        o, lc = self.loop_contract(n, 'for')
        init, condvar, cond, inc, body = n['inner']
        pre = self.stmt(init) if init.get('kind') else []
        saved = self.fc.temps; self.fc.temps = []
        ce = strip_parens(self.E(cond)) if cond.get('kind') else '1'
        ie = strip_parens(self.E(inc)) if inc.get('kind') else ''
        decls = self.fc.temps; self.fc.temps = saved
        lc = self.lc_with_temps(lc, decls)
        out = ['{'] + ['  ' + l for l in pre + decls] + ['  for (; %s; %s) /*loop %d*/' % (ce, ie, o)]
        if lc: out += ['  ' + l for l in lc.split('\n')]
        out += ['  ' + l for l in self.block(body)] + ['}']
        return out

    def s_WhileStmt(self, n):
        o, lc = self.loop_contract(n, 'while')
        inner = n['inner']
        cond, body = inner[-2], inner[-1]
        saved = self.fc.temps; self.fc.temps = []
        ce = strip_parens(self.E(cond))
        decls = self.fc.temps; self.fc.temps = saved
        lc = self.lc_with_temps(lc, decls)
        out = decls + ['while (%s) /*loop %d*/' % (ce, o)]
        if lc: out += lc.split('\n')
        out += self.block(body)
        if decls: out = ['{'] + ['  ' + l for l in out] + ['}']
        return out

    def s_DoStmt(self, n):
        o, lc = self.loop_contract(n, 'do')
        body, cond = n['inner']
        saved = self.fc.temps; self.fc.temps = []
        ce = strip_parens(self.E(cond))
        decls = self.fc.temps; self.fc.temps = saved
        lc = self.lc_with_temps(lc, decls)
        out = decls + ['do /*loop %d*/' % o]
        if lc: out += lc.split('\n')
        out += self.block(body) + ['while (%s);' % ce]
        if decls: out = ['{'] + ['  ' + l for l in out] + ['}']
        return out

    def s_CXXForRangeStmt(self, n):
        o, lc = self.loop_contract(n, 'range-for')
        inner = n['inner']
        # [init, range, begin, end, cond, inc, loopvar, body]
        init, rng, beg, end, cond, inc, lv, body = inner
        pre = []
        if init.get('kind'): pre += self.stmt(init)
        pre += self.stmt(rng) + self.stmt(beg) + self.stmt(end)
        saved = self.fc.temps; self.fc.temps = []
        ce = strip_parens(self.E(cond)); ie = strip_parens(self.E(inc))
        decls = self.fc.temps; self.fc.temps = saved
        lc = self.lc_with_temps(lc, decls)
        lvl = self.stmt(lv)
        b = self.stmt(body)
        if body.get('kind') == 'CompoundStmt': b = b[1:-1]
        else: b = ['  ' + l for l in b]
        out = ['{'] + ['  ' + l for l in pre + decls] + ['  for (; %s; %s) /*loop %d*/' % (ce, ie, o)]
        if lc: out += ['  ' + l for l in lc.split('\n')]
        out += ['  {'] + ['    ' + l for l in lvl] + ['  ' + l for l in b] + ['  }', '}']
        return out

    def s_SwitchStmt(self, n):
        inner = [c for c in n['inner']]
        cond, body = inner[-2], inner[-1]
        def f(): return ['switch (%s)' % strip_parens(self.E(cond))]
        return self.with_temps(f) + self.block(body)

    def s_CaseStmt(self, n):
        v = n['inner'][0]; sub = n['inner'][-1]
        return ['case %s:' % strip_parens(self.E(v))] + self.stmt(sub)

    def s_DefaultStmt(self, n):
        return ['default:'] + self.stmt(n['inner'][-1])

    def s_CXXTryStmt(self, n):
        self.fc.ntry += 1
        lab = '__catch_%d' % self.fc.ntry
        body = n['inner'][0]; catches = n['inner'][1:]
        self.fc.try_stack.append(lab)
        out = self.stmt(body)
        self.fc.try_stack.pop()
        out.append('if (0) { %s: ;' % lab)
        first = True
        for c in catches:
            inner = c.get('inner', [])
            var = inner[0] if inner and inner[0].get('kind') == 'VarDecl' else None
            hb = inner[-1]
            if var is None or 'type' not in var:
                cond = 'ovm_exc != 0'
            else:
                vt = self.canon(parse_type(var['type'].get('desugaredQualType') or var['type']['qualType'])).strip_ref()
                key = vt.key().replace('const ', '')
                if key in ('std::exception', 'std::runtime_error', 'std::logic_error'): cond = 'ovm_exc != 0'
                elif key in ('std::bad_alloc', 'std::length_error'): cond = 'ovm_exc == 2'
                else: cond = 'ovm_exc == %d' % self.exc_code(key)
            lines = ['  %sif (%s) {' % ('' if first else 'else ', cond), '    ovm_exc = 0;']
            if var is not None and var.get('name'):
                vt = self.canon(parse_type(var['type'].get('desugaredQualType') or var['type']['qualType']))
                ct = self.ctype(vt.strip_ref())
                lines.append('    %s %s__v; %s *%s = &%s__v;' % (ct, var['name'], ct, var['name'], var['name']) if vt.is_ref() else '    %s %s;' % (ct, var['name']))
            lines += ['    ' + l for l in self.stmt(hb)] + ['  }']
            out += lines; first = False
        out.append('  else { %s }' % self.propagate())
        out.append('}')
        return out

def _split_top(s):
    out = []; d = 0; cur = ''
    for ch in s:
        if ch == '<': d += 1
        elif ch == '>': d -= 1
        if ch == ',' and d == 0:
            out.append(cur.strip()); cur = ''
        else: cur += ch
    if cur.strip(): out.append(cur.strip())
    return out

def _prim(s):
    s2 = strip_parens(s)
    if re.match(r'^[A-Za-z_][A-Za-z_0-9]*((->|\.)[A-Za-z_][A-Za-z_0-9]*)*$', s2): return s2
    return '(' + s2 + ')'

def _copyT(t):
    return T(t.kind, t.name, list(t.args), t.inner, t.const)

def _strip_tpl(s):
    out = []; d = 0
    for ch in s:
        if ch == '<': d += 1
        elif ch == '>': d -= 1
        elif d == 0: out.append(ch)
    return ''.join(out)

def _sig_norm(q):
    return re.sub(r'\s*noexcept(\([^)]*\))?', '', q).strip()

def _same_sig(a, b):
    return a.replace(' override', '') == b.replace(' override', '')

def _stmts_to_commas(st):
    """turn 'a; b;' statement text (expression statements only) into 'a, b,'"""
    st = st.strip()
    if not st: return ''
    if '{' in st or re.search(r'\b(for|while|if)\b', st):
        raise Cxx2cError('cxx2c: initialiser needs statements in expression context: ' + st[:80])
    parts = [p.strip() for p in st.split(';') if p.strip()]
    for p in parts:
        if re.match(r'^(struct |_Bool |int |unsigned |char |long |size_t )', p):
            raise Cxx2cError('cxx2c: declaration in expression context: ' + p[:80])
    return ', '.join(parts) + ','
