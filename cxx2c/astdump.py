#!/usr/bin/env python3
"""debug helper: print compact AST subtree of a named function"""
import json,sys
def load(path):
    s=open(path).read(); dec=json.JSONDecoder(); i=0; n=len(s); objs=[]
    while i<n:
        while i<n and s[i] in ' \n\r\t': i+=1
        if i>=n: break
        if s[i]!='{':
            i=s.index('\n',i)+1; continue
        o,i=dec.raw_decode(s,i); objs.append(o)
    return objs
def show(n,ind=0,out=sys.stdout):
    k=n.get('kind'); extra=[]
    for f in ('name','opcode','castKind','valueCategory','value','isArrow','isPostfix'):
        if f in n: extra.append('%s=%s'%(f,n[f]))
    if 'type' in n: extra.append('T<%s>'%n['type'].get('qualType'))
    if 'referencedDecl' in n: extra.append('ref=%s:%s:%s'%(n['referencedDecl'].get('kind'),n['referencedDecl'].get('name'),n['referencedDecl'].get('id')))
    if 'referencedMemberDecl' in n: extra.append('mem=%s'%n['referencedMemberDecl'])
    if 'ctorType' in n: extra.append('ctor<%s>'%n['ctorType']['qualType'])
    for f in ('elidable','list','zeroing','hadMultipleCandidates','constructionKind','storageDuration','boundToLValueRef','init'):
        if f in n and f not in('hadMultipleCandidates',): extra.append('%s=%s'%(f,n[f]))
    out.write('  '*ind+k+' '+' '.join(extra)+'  #'+n.get('id','')+'\n')
    for c in n.get('inner',[]): show(c,ind+1,out)
def walk(n,f):
    f(n)
    for c in n.get('inner',[]): walk(c,f)
if __name__=='__main__':
    objs=load(sys.argv[1]); want=sys.argv[2]
    cnt=[0]
    def f(n):
        if n.get('kind') in('CXXMethodDecl','FunctionDecl','CXXConstructorDecl') and n.get('name')==want and any(c.get('kind')=='CompoundStmt' for c in n.get('inner',[])):
            cnt[0]+=1
            if len(sys.argv)>3 and int(sys.argv[3])!=cnt[0]: return
            print('=====',n.get('mangledName'),n['type']['qualType']); show(n)
    for o in objs: walk(o,f)
