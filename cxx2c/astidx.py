"""Load clang JSON AST dumps and index declarations of namespace OpenVolumeMesh."""
import json, re, subprocess, os, hashlib

REPO = os.environ.get('OVM_REPO', '/repo')

class Cxx2cError(Exception):
    """extraction failure: exit 2 (undecided), never a violation"""
    pass

def load_json_stream(path):
    s = open(path).read(); dec = json.JSONDecoder(); i = 0; n = len(s); objs = []
    while i < n:
        while i < n and s[i] in ' \n\r\t': i += 1
        if i >= n: break
        if s[i] != '{':
            i = s.index('\n', i) + 1; continue
        o, i = dec.raw_decode(s, i); objs.append(o)
    _stamp_locs(objs)
    return objs

def _stamp_locs(objs):
    """clang prints file/line only when they change; propagate them in document order"""
    st = {'file': None, 'line': None}
    def upd(d):
        if not isinstance(d, dict): return
        for key in ('spellingLoc', 'expansionLoc'):
            if key in d: upd(d[key])
        if 'file' in d: st['file'] = d['file']
        if 'line' in d: st['line'] = d['line']
    def rec(n):
        if 'loc' in n: upd(n['loc'])
        if 'range' in n:
            upd(n['range'].get('begin'))
            n['_file'] = st['file']; n['_line'] = st['line']
            upd(n['range'].get('end'))
        for c in n.get('inner', []): rec(c)
    import sys
    sys.setrecursionlimit(100000)
    for o in objs: rec(o)

def dump_tu(tu_path, out_json, extra_flags=()):
    inc = ['-I%s/src' % REPO]
    gen = '%s/_build/src' % REPO
    if os.path.isdir(gen + '/OpenVolumeMesh/Config'):
        inc.append('-I' + gen)
    else:
        inc.append('-I' + os.path.join(os.path.dirname(os.path.abspath(__file__)), '..', 'build', 'inc'))
    cmd = ['clang++', '-std=c++17', '-fsyntax-only', '-DNDEBUG', '-w'] + inc + list(extra_flags) + \
          ['-Xclang', '-ast-dump=json', '-Xclang', '-ast-dump-filter=OpenVolumeMesh', tu_path]
    with open(out_json, 'w') as f:
        r = subprocess.run(cmd, stdout=f, stderr=subprocess.PIPE, text=True)
    if r.returncode != 0:
        raise Cxx2cError('clang failed on %s:\n%s' % (tu_path, r.stderr[-3000:]))
    return out_json

FUNC_KINDS = ('FunctionDecl', 'CXXMethodDecl', 'CXXConstructorDecl', 'CXXDestructorDecl', 'CXXConversionDecl')
REC_KINDS = ('CXXRecordDecl', 'ClassTemplateSpecializationDecl', 'ClassTemplatePartialSpecializationDecl')

def _shape_hash(n):
    """structural hash of an AST subtree, ignoring node ids and source ranges"""
    import hashlib
    h = hashlib.sha256()
    def go(x):
        h.update(repr((x.get('kind'), x.get('name'), x.get('opcode'), x.get('value'), (x.get('type') or {}).get('qualType'), (x.get('type') or {}).get('desugaredQualType'),
                       x.get('castKind'), (x.get('referencedDecl') or {}).get('name'), (x.get('referencedDecl') or {}).get('kind'), ((x.get('referencedDecl') or {}).get('type') or {}).get('qualType'), x.get('valueCategory'), x.get('isArrow'))).encode())
        for c in x.get('inner', []) or []:
            h.update(b'('); go(c); h.update(b')')
    go(n)
    return h.hexdigest()

class Index:
    def __init__(self, objs):
        self.by_id = {}          # id -> node (all decls)
        self.qual = {}           # id -> qualified name (scope::name), for decls
        self.parent_rec = {}     # id of member decl -> record node id
        self.records = {}        # canonical type string -> record node (complete definitions)
        self.rec_key = {}        # record id -> canonical key
        self.pattern = set()     # ids of decls inside templates patterns (never emitted)
        self.aliases = {}        # qualified alias name -> type string
        self.funcs_by_qual = {}  # qualified name -> [node]  (definitions preferred)
        self.defn = {}           # canonical (first) decl id -> definition node
        self.first = {}          # any decl id -> first decl id
        self.enum_consts = {}    # id -> (name, value)
        self.last_file = None
        self._pending_ool = []
        self.lambda_expr = {}
        self.local_alias = {}
        self.lambda_map = {}
        self.lambda_variants = {}
        self.template_defaults = {}
        for o in objs:
            self._walk(o, [], False, None)
        self._resolve()

    # ------------------------------------------------------------------
    def _targs(self, n):
        args = []
        for c in n.get('inner', []):
            if c.get('kind') == 'TemplateArgument':
                if 'type' in c: args.append(c['type'].get('desugaredQualType') or c['type']['qualType'])
                elif 'value' in c: args.append(str(c['value']))
                elif c.get('inner'):
                    # expression argument / pack
                    sub = []
                    for cc in c['inner']:
                        if cc.get('kind') == 'TemplateArgument':
                            if 'type' in cc: sub.append(cc['type'].get('desugaredQualType') or cc['type']['qualType'])
                            elif 'value' in cc: sub.append(str(cc['value']))
                        elif 'value' in cc: sub.append(str(cc['value']))
                        else:
                            v = _const_value(cc)
                            sub.append(str(v) if v is not None else '?')
                    args.extend(sub)
                else: args.append('?')
        return args

    def _walk(self, n, scope, in_pattern, rec):
        k = n.get('kind')
        nid = n.get('id')
        if nid:
            if 'inner' in n or nid not in self.by_id: self.by_id[nid] = n
        if in_pattern and nid: self.pattern.add(nid)
        name = n.get('name', '')
        if k == 'NamespaceDecl':
            sc = scope + [name] if name else scope + ['(anon)']
            for c in n.get('inner', []): self._walk(c, sc, in_pattern, None)
            return
        if k in ('ClassTemplateDecl',):
            first = True
            dfl = {}
            for c in n.get('inner', []):
                if c.get('kind') in ('TemplateTypeParmDecl', 'NonTypeTemplateParmDecl') and 'defaultArg' in c and 'index' in c:
                    da = c['defaultArg']
                    v = (da.get('type') or {}).get('qualType') or da.get('value')
                    if v is not None: dfl[c['index']] = str(v)
            if dfl: self.template_defaults.setdefault('::'.join(scope + [name]), dfl)
            for c in n.get('inner', []):
                ck = c.get('kind')
                if ck == 'CXXRecordDecl':
                    self._walk(c, scope, True, rec)
                elif ck in ('ClassTemplateSpecializationDecl',):
                    self._walk(c, scope, in_pattern, rec)
                else:
                    self._walk(c, scope, True, rec)
            return
        if k == 'ClassTemplatePartialSpecializationDecl':
            for c in n.get('inner', []): self._walk(c, scope + [name + '<partial>'], True, n)
            self.pattern.add(nid)
            return
        if k == 'FunctionTemplateDecl':
            first = True
            for c in n.get('inner', []):
                ck = c.get('kind')
                if ck in FUNC_KINDS:
                    if first:
                        self._walk(c, scope, True, rec); first = False
                    else:
                        self._walk(c, scope, in_pattern, rec, )
                else:
                    self._walk(c, scope, True, rec)
            return
        if k in ('TypeAliasTemplateDecl', 'VarTemplateDecl'):
            for c in n.get('inner', []): self._walk(c, scope, True, rec)
            return
        if k in ('TypeAliasDecl', 'TypedefDecl'):
            if not in_pattern and 'type' in n:
                self.aliases['::'.join(scope + [name])] = n['type'].get('desugaredQualType') or n['type']['qualType']
            return
        if k in REC_KINDS:
            local = name
            if k == 'ClassTemplateSpecializationDecl':
                local += '<' + ', '.join(self._targs(n)) + '>'
            qn = '::'.join(scope + [local])
            if nid in self.qual and local.endswith('<>'):
                # the same specialisation dumped again in abbreviated form (no template arguments): keep the first name
                qn = self.qual[nid]; local = qn[len('::'.join(scope)) + 2:] if scope and qn.startswith('::'.join(scope) + '::') else qn
            self.qual[nid] = qn
            if rec is not None: self.parent_rec[nid] = rec['id']
            if n.get('completeDefinition') and not in_pattern:
                self.records.setdefault(qn, n)
            for c in n.get('inner', []):
                if c.get('kind') in REC_KINDS and c.get('isImplicit'): continue
                self._walk(c, scope + [local], in_pattern, n)
            return
        if k == 'EnumDecl':
            qn = '::'.join(scope + [name])
            self.qual[nid] = qn
            val = -1
            for c in n.get('inner', []):
                if c.get('kind') == 'EnumConstantDecl':
                    v = None
                    for cc in c.get('inner', []):
                        v = _const_value(cc)
                    val = v if v is not None else val + 1
                    self.enum_consts[c['id']] = (c['name'], val, qn)
                    self.by_id[c['id']] = c
            return
        if k in FUNC_KINDS:
            if nid in self.qual and 'inner' not in n:
                return
            if 'parentDeclContextId' in n and rec is None:
                # out-of-line definition: scope resolved later from the parent
                self._pending_ool.append((n, in_pattern))
            else:
                self._reg_func(n, scope, rec)
            self._index_body(n, in_pattern)
            return
        if k in ('FieldDecl', 'VarDecl'):
            self.qual[nid] = '::'.join(scope + [name])
            if rec is not None: self.parent_rec[nid] = rec['id']
            self._index_body(n, in_pattern)
            return
        for c in n.get('inner', []): self._walk(c, scope, in_pattern, rec)

    def _index_body(self, n, in_pattern):
        # index local decls (VarDecl, ParmVarDecl, lambdas' records) by id
        stack = list(n.get('inner', []))
        loc = {}                       # typedefs local to this function body (shared with the lambdas inside it)
        lam = {}                       # written closure type name -> unique record key, for the lambdas of this body
        if n.get('id'): self.local_alias[n['id']] = loc; self.lambda_map[n['id']] = lam
        while stack:
            c = stack.pop()
            cid = c.get('id')
            if c.get('kind') in ('TypedefDecl', 'TypeAliasDecl') and c.get('name') and c.get('type'):
                loc[c['name']] = c['type'].get('desugaredQualType') or c['type']['qualType']
            if c.get('kind') == 'LambdaExpr' and not in_pattern:
                base = c['type']['qualType']
                rec = c['inner'][0]
                key = base
                if base in self.records and self.records[base].get('id') != rec.get('id'):
                    # the same lambda in another instantiation of the enclosing template: a separate record only when it
                    # differs structurally (types, constants, callees) from the variants seen so far
                    hsh = _shape_hash(rec)
                    variants = self.lambda_variants.setdefault(base, [(_shape_hash(self.records[base]), base)])
                    hit = [k for h, k in variants if h == hsh]
                    if hit: key = hit[0]
                    else:
                        key = base[:-1] + ' inst ' + rec['id'][-6:] + ')'
                        variants.append((hsh, key))
                lam[base] = key
                self.records.setdefault(key, rec)
                self.qual[rec['id']] = key
                self.lambda_expr[rec['id']] = c
                for m in rec.get('inner', []):
                    if m.get('kind') in FUNC_KINDS:
                        self.qual[m['id']] = key + '::' + m.get('name', '')
                        self.parent_rec[m['id']] = rec['id']
                        self.by_id[m['id']] = m
                        self.local_alias.setdefault(m['id'], loc); self.lambda_map.setdefault(m['id'], lam)
                    elif m.get('kind') == 'FunctionTemplateDecl':
                        # generic lambda: first child function is the pattern, the others are instantiations
                        first = True
                        for mm in m.get('inner', []):
                            if mm.get('kind') in FUNC_KINDS:
                                if first:
                                    first = False; self.pattern.add(mm['id']); continue
                                ta = self._targs(mm)
                                self.qual[mm['id']] = key + '::' + mm.get('name', '') + ('<' + ', '.join(ta) + '>' if ta else '')
                                self.parent_rec[mm['id']] = rec['id']
                                self.by_id[mm['id']] = mm
                    elif m.get('kind') == 'FieldDecl':
                        self.by_id[m['id']] = m
                        self.parent_rec[m['id']] = rec['id']
            if cid and c.get('kind', '').endswith('Decl'):
                self.by_id[cid] = c
                if in_pattern: self.pattern.add(cid)
            stack.extend(c.get('inner', []))

    def _reg_func(self, n, scope, rec):
        nid = n['id']
        if nid in self.qual: return     # the same node is dumped again (abbreviated) under later redeclarations
        qn = '::'.join(scope + [n.get('name', '')])
        targs = self._targs(n)
        if targs: qn += '<' + ', '.join(targs) + '>'
        self.qual[nid] = qn
        if rec is not None: self.parent_rec[nid] = rec['id']
        self.funcs_by_qual.setdefault(qn, []).append(n)

    def _resolve(self):
        for n, in_pattern in self._pending_ool:
            pid = n['parentDeclContextId']
            if pid in self.qual and self.by_id.get(pid, {}).get('kind') in REC_KINDS:
                scope = self.qual[pid].split('::') if False else [self.qual[pid]]
                qn = self.qual[pid] + '::' + n.get('name', '')
                targs = self._targs(n)
                if targs: qn += '<' + ', '.join(targs) + '>'
                self.qual[n['id']] = qn
                self.parent_rec[n['id']] = pid
                self.funcs_by_qual.setdefault(qn, []).append(n)
                if pid in self.pattern: self.pattern.add(n['id'])
            else:
                # namespace-level out-of-line (function declared in namespace, defined outside)
                prev = n.get('previousDecl')
                if prev and prev in self.qual:
                    self.qual[n['id']] = self.qual[prev]
                    self.funcs_by_qual.setdefault(self.qual[prev], []).append(n)
        # first-decl / definition maps
        for nid, n in list(self.by_id.items()):
            if n.get('kind') in FUNC_KINDS:
                f = nid
                seen = set()
                while self.by_id.get(f, {}).get('previousDecl') and f not in seen:
                    seen.add(f); f = self.by_id[f]['previousDecl']
                self.first[nid] = f
                if has_body(n) or n.get('explicitlyDefaulted') == 'default' and False:
                    self.defn[f] = n
        for nid, f in list(self.first.items()):
            if f in self.pattern: self.pattern.add(nid)

    def definition(self, fid):
        f = self.first.get(fid, fid)
        return self.defn.get(f)

    def decl(self, fid):
        return self.by_id.get(fid)

def has_body(n):
    return any(c.get('kind') in ('CompoundStmt', 'CXXTryStmt') for c in n.get('inner', []))

def _const_value(n):
    if n is None: return None
    if 'value' in n and n.get('kind') in ('ConstantExpr', 'IntegerLiteral', 'CXXBoolLiteralExpr', 'CharacterLiteral'):
        v = n['value']
        if isinstance(v, bool): return int(v)
        try: return int(v)
        except Exception:
            if v in ('true', 'false'): return 1 if v == 'true' else 0
            return None
    for c in n.get('inner', []):
        v = _const_value(c)
        if v is not None:
            if n.get('kind') == 'UnaryOperator' and n.get('opcode') == '-': return -v
            return v
    return None
