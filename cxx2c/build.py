"""Assemble generated C: structs, vstd instances, extracted functions with contracts woven in."""
import re, os, hashlib
from astidx import Cxx2cError, Index, load_json_stream, dump_tu
from emit import Emitter, loc_of
import stdmap

def find_funcs(ix, qual, sig=None):
    """definitions matching a qualified C++ name (optionally substring of the signature)"""
    out = []
    cands = [n for n in ix.funcs_by_qual.get(qual, []) if n['id'] not in ix.pattern]
    if not cands:
        for k, v in ix.funcs_by_qual.items():
            if k.startswith(qual + '<') and not qual.split('::')[-1].startswith('operator'): cands.extend(v)
    for n in cands:
        if n['id'] in ix.pattern: continue
        d = ix.definition(ix.first.get(n['id'], n['id']))
        if d is None: continue
        if sig is not None and sig not in d['type']['qualType']: continue
        if d not in out: out.append(d)
    return out

def parse_spec(text):
    """contracts file -> {cname: {'head': str, 'loops': {ord: str}, 'nloops': int|None, 'cxx': str}}"""
    out = {}
    cur = None; loop = None
    for raw in text.split('\n'):
        line = raw.rstrip()
        s = line.strip()
        if not s or s.startswith('#'): continue
        m = re.match(r'^function\s+(\S+)(?:\s+loops=(\d+))?\s*$', s)
        if m:
            cur = {'head': [], 'loops': {}, 'nloops': int(m.group(2)) if m.group(2) else None}
            out[m.group(1)] = cur; loop = None; continue
        if s == 'end': cur = None; loop = None; continue
        if cur is None: raise Cxx2cError('spec: text outside function block: ' + s)
        m = re.match(r'^loop\s+(\d+)\s*:\s*$', s)
        if m:
            loop = int(m.group(1)); cur['loops'][loop] = []; continue
        m = re.match(r'^(requires|ensures|assigns|invariant|decreases|frees)\b\s*(.*)$', s)
        if m:
            kw, body = m.group(1), m.group(2)
            if loop is None:
                cur['head'].append('__CPROVER_%s(%s)' % (kw, body))
            else:
                kwm = {'invariant': 'loop_invariant', 'assigns': 'assigns', 'decreases': 'decreases'}[kw]
                cur['loops'][loop].append('__CPROVER_%s(%s)' % (kwm, body))
            continue
        # continuation line
        tgt = cur['head'] if loop is None else cur['loops'][loop]
        if not tgt: raise Cxx2cError('spec: continuation without clause: ' + s)
        tgt[-1] = tgt[-1][:-1] + ' ' + s + ')'
    for k, v in out.items():
        v['head'] = '\n'.join(v['head'])
        v['loops'] = {o: '\n'.join(l) for o, l in v['loops'].items()}
    return out

def topo_structs(items):
    """items: list of (name, text). order so by-value members are defined first"""
    names = [n for n, t in items]
    text = dict(items)
    deps = {}
    for n, t in items:
        d = set()
        for m in re.finditer(r'struct (\w+) (\w+)(\[[^\]]*\])?;', t):
            if m.group(1) != n and m.group(1) in text: d.add(m.group(1))
        deps[n] = d
    out = []; state = {}
    def visit(n):
        if state.get(n) == 2: return
        if state.get(n) == 1: raise Cxx2cError('struct dependency cycle at ' + n)
        state[n] = 1
        for d in sorted(deps[n]): visit(d)
        state[n] = 2; out.append(n)
    for n in names: visit(n)
    return [(n, text[n]) for n in out]

class Unit:
    """one generated C translation unit"""
    def __init__(self, ix, contracts=None, cfg=None):
        cfg = dict(cfg or {})
        cfg['contracts'] = contracts or {}
        self.em = Emitter(ix, cfg)
        self.ix = ix
        self.contracts = contracts or {}
        self.roots = {}

    def want(self, qual, sig=None, all_overloads=False):
        fs = find_funcs(self.ix, qual, sig)
        if not fs:
            raise Cxx2cError('must-fire: function %s%s not found in the AST' % (qual, ' [' + sig + ']' if sig else ''))
        if len(fs) > 1 and not all_overloads:
            raise Cxx2cError('must-fire: %s is ambiguous (%d definitions): %s' % (qual, len(fs), [f['type']['qualType'] for f in fs]))
        names = []
        for f in fs:
            cn = self.em.request_func(f)
            self.roots[cn] = f
            names.append(cn)
        return names if all_overloads else names[0]

    def generate(self):
        text = self._generate_once()
        em = self.em
        # may-throw closure over the call graph (second pass re-emits with propagation checks after raising calls)
        thr = set(em.direct_throw)
        changed = True
        while changed:
            changed = False
            for f, cs in em.calls.items():
                if f not in thr and cs & thr: thr.add(f); changed = True
        if thr and thr != set(em.throwing):
            cfg = dict(em.cfg); cfg['throwing'] = sorted(thr)
            old = self.em
            self.em = Emitter(self.ix, cfg)
            roots = dict(self.roots); self.roots = {}
            for cn, f in roots.items():
                self.roots[self.em.request_func(f)] = f
            for extra in getattr(self, 'extra_requests', []): extra(self.em)
            text = self._generate_once()
            if set(self.em.direct_throw) - thr:
                raise Cxx2cError('may-throw closure did not converge')
        return text

    def _generate_once(self):
        em = self.em
        em.run_queue()
        structs, protos, funcs = [], [], []
        # vstd generation may request further functions / types
        while True:
            before = (len(em.vstd_req), len(em.done))
            s, p, f = stdmap.gen_vstd(em)
            em.run_queue()
            if (len(em.vstd_req), len(em.done)) == before:
                structs, protos, funcs = s, p, f
                break
        # shape check of contracts
        for cn, c in self.contracts.items():
            if cn not in em.func_text: continue
            info = em.func_info[cn]
            if c.get('nloops') is not None and c['nloops'] != len(info['loops']):
                raise Cxx2cError('shape mismatch: %s has %d loops, contract expects %d' % (cn, len(info['loops']), c['nloops']))
            for o in c.get('loops', {}):
                if o >= len(info['loops']):
                    raise Cxx2cError('shape mismatch: %s has no loop %d' % (cn, o))
        out = [stdmap.VSTD_PRELUDE]
        all_structs = []
        capdefs = []
        for k, s in structs:
            for m in re.finditer(r'(#ifndef (VSTD_CAP_\w+)\n#define \2 VSTD_CAP_DEFAULT\n#endif)', s):
                capdefs.append(m.group(1))
            for m in re.finditer(r'(struct (\w+) \{[^}]*\};)', s):
                all_structs.append((m.group(2), m.group(1)))
        out.extend(capdefs)
        for cn, v in em.struct_defs.items():
            if v is None: raise Cxx2cError('struct %s left incomplete' % cn)
            all_structs.append((cn, v[1]))
        for n, t in all_structs: out.append('struct %s;' % n)
        for n, t in topo_structs(all_structs): out.append(t)
        out.append(self.em.cfg.get('prelude', ''))
        out.append('/* ---- vstd prototypes ---- */')
        out.extend(p for p in protos if p)
        out.append('/* ---- extracted function prototypes ---- */')
        for cn, v in em.func_text.items():
            if v is None: raise Cxx2cError('function %s left incomplete' % cn)
            out.append(v[0] + ';')
        for cn, pr in em.stub_protos.items():
            out.append(pr + ';   /* stub: body supplied by the harness (trusted) */')
        out.append('/* ---- vstd bodies ---- */')
        out.extend(f for f in funcs if f)
        out.append('/* ---- extracted functions (from %d definitions) ---- */' % len(em.func_text))
        for cn, (proto, body, fn) in em.func_text.items():
            info = em.func_info.get(cn, {})
            out.append('/* %s  [%s] */' % (info.get('qual'), info.get('loc')))
            head = self.contracts.get(cn, {}).get('head', '')
            out.append(proto)
            if head: out.append(head)
            out.append('{')
            out.extend('  ' + l for l in body)
            out.append('}')
        return '\n'.join(out) + '\n'

    def function_sha(self, cn):
        proto, body, fn = self.em.func_text[cn]
        return hashlib.sha256((proto + '\n' + '\n'.join(body)).encode()).hexdigest()[:16]
