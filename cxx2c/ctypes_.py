"""C++ type strings (clang qualType) -> structured types -> C names."""
import re
from astidx import Cxx2cError

class T:
    __slots__ = ('kind', 'name', 'args', 'inner', 'const', 'ret', 'params')
    # kind: 'named' (name,args) | 'ptr' | 'ref' | 'rref' | 'func' | 'array'
    def __init__(self, kind, name=None, args=None, inner=None, const=False):
        self.kind = kind; self.name = name; self.args = args or []; self.inner = inner; self.const = const
    def key(self):
        if self.kind == 'named':
            return self.name + ('<' + ', '.join(a.key() if isinstance(a, T) else str(a) for a in self.args) + '>' if self.args else '')
        if self.kind == 'ptr': return self.inner.key() + ' *'
        if self.kind == 'ref': return self.inner.key() + ' &'
        if self.kind == 'rref': return self.inner.key() + ' &&'
        if self.kind == 'array': return self.inner.key() + '[%s]' % self.name
        return '?'
    def __repr__(self): return 'T(' + self.key() + ')'
    def strip_ref(self):
        return self.inner if self.kind in ('ref', 'rref') else self
    def is_ref(self): return self.kind in ('ref', 'rref')

_TOK = re.compile(r'\s*(\'(?:\\x[0-9a-fA-F]+|\\.|[^\'])\'|\(lambda at [^)]*\)|\(anonymous namespace\)|\(anonymous\)|::|<|>|,|\*|&&|&|\(|\)|\[|\]|[A-Za-z_~][A-Za-z_0-9]*|-?\d+[uUlL]*|\.\.\.)')

PRIM_WORDS = {'unsigned', 'signed', 'int', 'long', 'short', 'char', 'bool', 'float', 'double', 'void', 'wchar_t', 'char16_t', 'char32_t', '__int128'}

class TypeParser:
    def __init__(self, s):
        self.toks = []
        pos = 0
        s = s.strip()
        while pos < len(s):
            m = _TOK.match(s, pos)
            if not m:
                raise Cxx2cError('type tokenizer: %r at %d' % (s, pos))
            self.toks.append(m.group(1)); pos = m.end()
        self.i = 0
        self.src = s
    def peek(self): return self.toks[self.i] if self.i < len(self.toks) else None
    def next(self):
        t = self.peek(); self.i += 1; return t
    def parse(self):
        t = self.parse_type()
        if self.peek() is not None:
            raise Cxx2cError('type parser: trailing %r in %r' % (self.toks[self.i:], self.src))
        return t
    def parse_type(self):
        const = False
        while self.peek() in ('const', 'volatile', 'typename', 'class', 'struct', 'enum'):
            if self.next() == 'const': const = True
        # primitive multiword
        if self.peek() in PRIM_WORDS:
            words = []
            while self.peek() in PRIM_WORDS or self.peek() in ('const',):
                w = self.next()
                if w == 'const': const = True
                else: words.append(w)
            base = T('named', norm_prim(words))
        else:
            base = self.parse_named()
        base.const = const
        # suffixes
        while True:
            p = self.peek()
            if p == 'const' or p == 'volatile':
                self.next(); base.const = True if p == 'const' else base.const
            elif p == '*':
                self.next(); base = T('ptr', inner=base)
            elif p == '&':
                self.next(); base = T('ref', inner=base)
            elif p == '&&':
                self.next(); base = T('rref', inner=base)
            elif p == '[':
                self.next(); n = self.next()
                if n == ']': n = ''
                else: self.next()
                base = T('array', name=n, inner=base)
            elif p == '(':
                # function type / pointer-to-function: T (*)(args) or T (args)
                depth = 0
                # consume everything balanced
                while self.peek() is not None:
                    q = self.next()
                    if q == '(': depth += 1
                    elif q == ')':
                        depth -= 1
                        if depth == 0 and self.peek() != '(':
                            break
                while self.peek() in ('const', 'noexcept'): self.next()
                base = T('func', inner=base)
            else:
                break
        return base
    def parse_named(self):
        parts = []
        if self.peek() == '::': self.next()
        args = []
        while True:
            t = self.next()
            if t is None: raise Cxx2cError('type parser: unexpected end in %r' % self.src)
            name = t
            a = []
            if self.peek() == '<':
                self.next()
                while self.peek() != '>':
                    if self.peek() is None: raise Cxx2cError('type parser: unbalanced <> in %r' % self.src)
                    if re.match(r"-?\d|'", self.peek()) or self.peek() in ('true', 'false'):
                        v = self.next()
                        if v.startswith("'"):
                            body = v[1:-1]
                            v = str(int(body[2:], 16)) if body.startswith('\\x') else (str(ord(body[-1])) if not body.startswith('\\') else str({'n': 10, 't': 9, '0': 0}.get(body[1], ord(body[1]))))
                        a.append(v)
                    else:
                        a.append(self.parse_type())
                    if self.peek() == ',': self.next()
                self.next()
            if self.peek() == '::':
                self.next()
                parts.append(name + ('<' + ', '.join(x.key() if isinstance(x, T) else x for x in a) + '>' if a else ''))
                continue
            parts.append(name)
            args = a
            break
        return T('named', '::'.join(parts), args)

def norm_prim(words):
    w = [x for x in words if x != 'signed' or len(words) == 1 or 'char' in words]
    s = ' '.join(words)
    m = {'unsigned': 'unsigned int', 'long int': 'long', 'unsigned long int': 'unsigned long', 'long unsigned int': 'unsigned long',
         'short int': 'short', 'unsigned short int': 'unsigned short', 'long long int': 'long long', 'signed int': 'int',
         'long unsigned': 'unsigned long', 'signed': 'int', 'long long unsigned int': 'unsigned long long'}
    return m.get(s, s)

_cache = {}
def parse_type(s):
    t = _cache.get(s)
    if t is None:
        t = TypeParser(s).parse(); _cache[s] = t
    return t

PRIM_C = {'bool': '_Bool', 'char': 'char', 'signed char': 'signed char', 'unsigned char': 'unsigned char', 'short': 'short',
          'unsigned short': 'unsigned short', 'int': 'int', 'unsigned int': 'unsigned int', 'long': 'long',
          'unsigned long': 'unsigned long', 'long long': 'long long', 'unsigned long long': 'unsigned long long',
          'float': 'float', 'double': 'double', 'void': 'void', 'long double': 'long double'}

def sanitize(s):
    s = s.replace('OpenVolumeMesh::', '').replace('std::', 'std_')
    s = s.replace('unsigned ', 'u').replace(' &&', '_rr').replace('&&', '_rr').replace(' *', '_p').replace('*', '_p').replace(' &', '_r')
    s = re.sub(r'[^A-Za-z0-9_]+', '_', s).strip('_')
    return s
