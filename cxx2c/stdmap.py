"""Mapping of libstdc++ types / calls to the vstd C model, and the vstd generator.

vstd is a *model* of the STL pieces the extracted code uses (trusted base, DESIGN §3.2).
Bounds violations on operator[], front, back, iterator dereference are assertions tagged
"vstd-bounds"; exhausted fixed capacity is tagged "vstd-capacity" (reported as bound too
small, exit 2, never as a violation)."""
import re
from astidx import Cxx2cError
from ctypes_ import T, parse_type, PRIM_C, sanitize

def _is(t, name): return t.kind == 'named' and t.name == name

def vec_elem(t):
    return t.args[0]

def iter_info(em, t):
    """(kind, elemT) for iterator types: kind in vit, rvit, sit, bii"""
    t = t.strip_ref()
    if t.kind != 'named': return None
    if t.name == '__gnu_cxx::__normal_iterator':
        p = t.args[0]
        return ('vit', p.inner)
    if t.name in ('std::_Bit_iterator', 'std::_Bit_const_iterator'):
        return ('vit', T('named', 'bool'))
    if t.name == 'std::reverse_iterator':
        inner = iter_info(em, t.args[0])
        if inner and inner[0] == 'vit': return ('rvit', inner[1])
        if inner and inner[0] == 'sit': return ('rsit', inner[1])
        return None
    if t.name in ('std::_Rb_tree_const_iterator', 'std::_Rb_tree_iterator'):
        return ('sit', t.args[0])
    if t.name == 'std::back_insert_iterator':
        return ('bii', vec_elem(t.args[0]))
    if t.name == 'std::insert_iterator':
        c = t.args[0]
        if _is(c, 'std::set'): return ('sii', c.args[0])
    return None

def _noconst(t):
    if t.kind == 'named':
        return T('named', t.name, t.args, const=False)
    return t

def ctype_std(em, t):
    n = t.name
    if n == 'std::vector':
        e = _noconst(vec_elem(t)); en = em.elemname(e)
        em.vstd_req.setdefault('vec_' + en, ('vec', e))
        return 'struct vec_' + en
    ii = iter_info(em, t)
    if ii is not None:
        kind, e = ii; e = _noconst(e); en = em.elemname(e)
        if kind in ('vit', 'rvit', 'bii'):
            em.vstd_req.setdefault('vec_' + en, ('vec', e))
        else:
            em.vstd_req.setdefault('set_' + en, ('set', e))
        return 'struct %s_%s' % (kind, en)
    if n == 'std::_Bit_reference': return '_Bool *'
    if n == 'std::set':
        e = _noconst(t.args[0]); en = em.elemname(e)
        em.vstd_req.setdefault('set_' + en, ('set', e))
        return 'struct set_' + en
    if n == 'std::pair':
        a, b = _noconst(t.args[0]), _noconst(t.args[1])
        nm = 'pair_%s_%s' % (em.elemname(a), em.elemname(b))
        em.vstd_req.setdefault(nm, ('pair', (a, b)))
        return 'struct ' + nm
    if n == 'std::array':
        e = _noconst(t.args[0]); nn = int(re.sub(r'[uUlL]', '', str(t.args[1])))
        nm = 'arr_%s_%d' % (em.elemname(e), nn)
        em.vstd_req.setdefault(nm, ('arr', (e, nn)))
        return 'struct ' + nm
    if n == 'std::bitset': return 'unsigned long'      # bitset<N>, N <= 64: the bits of an unsigned long
    if n == 'std::integral_constant': return 'unsigned char'      # a tag object: stateless, only its type matters
    if n == 'std::unique_ptr' and t.args: return em.ctype(_noconst(t.args[0])) + ' *'      # the owned pointer; ownership and deletion are not represented
    if n.startswith('std::bitset<') and n.endswith('::reference'): return '_Bool'      # proxy of a bit that is only read: its value
    if n in ('std::basic_string', 'std::__cxx11::basic_string', 'std::basic_string_view'): return 'ovm_string'
    if n in ('std::basic_ostream', 'std::basic_istream', 'std::basic_ios', 'std::basic_iostream'): return 'ovm_stream'
    if n in ('std::runtime_error', 'std::exception', 'std::logic_error', 'std::bad_alloc', 'std::length_error'): return 'ovm_exception'
    if n == 'std::initializer_list':
        e = _noconst(t.args[0]); en = em.elemname(e)
        em.vstd_req.setdefault('il_' + en, ('il', e))
        return 'struct il_' + en
    if n.startswith('std::') or n.startswith('__gnu_cxx::'):
        raise Cxx2cError('cxx2c: std type without vstd model: %s (at %s in %s)' % (t.key(), em.cur_loc, em.fc.cname if em.fc else '?'))
    return None

def trivially_copyable_std(em, t):
    n = t.name
    if n in ('std::vector', 'std::set'): return False
    if iter_info(em, t) is not None: return True
    if n == 'std::_Bit_reference': return True
    if n == 'std::bitset' or (n.startswith('std::bitset<') and n.endswith('::reference')): return True
    if n == 'std::unique_ptr': return True
    if n == 'std::integral_constant': return True
    if n == 'std::pair': return em.is_trivially_copyable(t.args[0]) and em.is_trivially_copyable(t.args[1])
    if n == 'std::array': return em.is_trivially_copyable(t.args[0])
    if n in ('std::basic_string', 'std::__cxx11::basic_string', 'std::basic_string_view', 'std::initializer_list'): return True
    if n.startswith('std::'): return None
    return None

def copy_expr_std(em, t, lv):
    n = t.name
    if n in ('std::vector', 'std::set'):
        c = em.ctype(t).replace('struct ', '')
        return '%s_copy(&(%s))' % (c, lv)
    if n in ('std::pair', 'std::array'):
        c = em.ctype(t).replace('struct ', '')
        return '%s_copy(&(%s))' % (c, lv)
    return None

def move_expr_std(em, t, lv):
    n = t.name
    if n in ('std::vector', 'std::set'):
        c = em.ctype(t).replace('struct ', '')
        return '%s_move(&(%s))' % (c, lv)
    return None

def default_init_std(em, t, lv):
    n = t.name
    if n in ('std::vector', 'std::set'):
        c = em.ctype(t).replace('struct ', '')
        return '%s_init(&(%s));' % (c, lv)
    if n == 'std::pair':
        return em.default_init_stmt(t.args[0], lv + '.first') + ' ' + em.default_init_stmt(t.args[1], lv + '.second')
    if n == 'std::array':
        c = em.ctype(t).replace('struct ', '')
        return '%s_init(&(%s));' % (c, lv)
    if n in ('std::basic_string', 'std::__cxx11::basic_string'): return '%s = ovm_string_empty();' % lv
    if n == 'std::bitset': return '%s = 0UL;' % lv
    if n == 'std::integral_constant': return '%s = 0;' % lv
    if iter_info(em, t) is not None: return ''
    return None

def assign_std(em, lt, lhs, rhs):
    n = lt.name
    if n in ('std::vector', 'std::set'):
        c = em.ctype(lt).replace('struct ', '')
        l = em.E(lhs)
        if rhs.get('valueCategory') == 'lvalue':
            return '(*%s_assign(&(%s), %s))' % (c, l, em.copy_expr(lt, em.E(rhs)))
        return '(*%s_assign(&(%s), %s))' % (c, l, em.E(rhs) if rhs.get('valueCategory') == 'prvalue' else em.move_expr(lt, rhs))
    return None

def initlist_into_std(em, t, lv, e):
    n = t.name
    if n == 'std::pair':
        items = e.get('inner', [])
        return em.init_into(t.args[0], lv + '.first', items[0]) + ' ' + em.init_into(t.args[1], lv + '.second', items[1])
    if n == 'std::array':
        items = e.get('inner', [])
        # brace elision: {{a,b,c}} or {a,b,c}
        if len(items) == 1 and items[0].get('kind') == 'InitListExpr': items = items[0].get('inner', [])
        et = t.args[0]
        out = []
        for i, it in enumerate(items):
            out.append(em.init_into(et, '%s.d[%d]' % (lv, i), it))
        nn = int(re.sub(r'[uUlL]', '', str(t.args[1])))
        for i in range(len(items), nn):
            out.append(em.default_init_stmt(et, '%s.d[%d]' % (lv, i)))
        return ' '.join(out)
    if n in ('std::vector', 'std::set'):
        return vec_from_items(em, t, lv, e.get('inner', []))
    return None

def vec_from_items(em, t, lv, items):
    c = em.ctype(t).replace('struct ', '')
    et = t.args[0]
    out = ['%s_init(&(%s));' % (c, lv)]
    fn = 'push_back' if t.name == 'std::vector' else 'insert_v'
    for it in items:
        out.append('%s_%s(&(%s), %s);' % (c, fn, lv, value_arg(em, et, it)))
    return ' '.join(out)

def value_arg(em, et, a):
    """C rvalue of element type et from arg node a, copying if a is an lvalue of non-trivial type"""
    if em.is_trivially_copyable(et): return em.Eval(a)
    if a.get('valueCategory') == 'lvalue': return em.copy_expr(et, em.E(a))
    if a.get('valueCategory') == 'xvalue': return em.move_expr(et, a)
    return em.E(a)

def il_items(em, e):
    """items of a CXXStdInitializerListExpr argument"""
    e = em.strip_wrappers(e)
    if e.get('kind') == 'CXXStdInitializerListExpr':
        x = e['inner'][0]
        while x.get('kind') in ('MaterializeTemporaryExpr', 'ImplicitCastExpr'): x = x['inner'][0]
        if x.get('kind') == 'InitListExpr': return x.get('inner', [])
    return None

def construct_std(em, t, lv, e, kind):
    n = t.name
    args = e.get('inner', [])
    c = em.ctype(t).replace('struct ', '')
    if n == 'std::integral_constant': return '%s = 0;' % lv
    if n == 'std::bitset':
        real = [a for a in args if a.get('kind') != 'CXXDefaultArgExpr']
        nb = int(re.sub(r'[uUlL]', '', str(t.args[0])))
        if nb > 64: em.fail(e, 'std::bitset wider than 64 bits')
        if not real: return '%s = 0UL;' % lv
        return '%s = ((unsigned long)(%s)) & %dUL;' % (lv, em.Eval(real[0]), (1 << nb) - 1)
    if n in ('std::vector', 'std::set'):
        if kind == 'default' or not args: return '%s_init(&(%s));' % (c, lv)
        items = il_items(em, args[0])
        if items is not None:
            return vec_from_items(em, t, lv, items)
        at = [em.T_of(a) for a in args]
        real = [a for a in args if a.get('kind') != 'CXXDefaultArgExpr']
        if n == 'std::vector' and len(real) == 1 and (at[0].name in PRIM_C):
            return '%s_init(&(%s)); %s_resize(&(%s), %s);' % (c, lv, c, lv, em.Eval(real[0]))
        if n == 'std::vector' and len(real) == 2 and (at[0].name in PRIM_C) and not iter_info(em, at[0]):
            return '%s_init(&(%s)); %s_resize_val(&(%s), %s, %s);' % (c, lv, c, lv, em.Eval(real[0]), value_arg(em, t.args[0], real[1]))
        if len(real) == 2 and iter_info(em, at[0]) and iter_info(em, at[1]):
            k0 = iter_info(em, at[0])[0]
            return '%s_init(&(%s)); %s_insert_range_%s(&(%s), %s, %s);' % (c, lv, c, k0, lv, em.Eval(real[0]), em.Eval(real[1]))
        em.fail(e, 'std container constructor form not modelled: ' + e.get('ctorType', {}).get('qualType', ''))
    if n == 'std::pair':
        real = [a for a in args if a.get('kind') != 'CXXDefaultArgExpr']
        if kind == 'default': return default_init_std(em, t, lv)
        if len(real) == 2:
            return em.init_into(t.args[0], lv + '.first', real[0]) + ' ' + em.init_into(t.args[1], lv + '.second', real[1])
        if len(real) == 1:
            # converting constructor from another pair
            st = em.T_of(real[0]).strip_ref()
            if st.name == 'std::pair':
                s = em.new_temp(em.ctype(st))
                return '%s = %s; %s.first = %s.first; %s.second = %s.second;' % (s, em.Eval(real[0]), lv, s, lv, s)
        em.fail(e, 'std::pair constructor form')
    if n == 'std::array':
        return default_init_std(em, t, lv)
    ii = iter_info(em, t)
    if ii is not None:
        real = [a for a in args if a.get('kind') != 'CXXDefaultArgExpr']
        if kind == 'default': return ''
        if len(real) == 1:
            st = em.T_of(real[0]).strip_ref()
            si = iter_info(em, st)
            if si is not None:
                if si[0] == ii[0]: return '%s = %s;' % (lv, em.Eval(real[0]))
                if ii[0] == 'rvit' and si[0] == 'vit':
                    return '%s.v = (%s).v; %s.i = (%s).i;' % (lv, em.Eval(real[0]), lv, em.Eval(real[0]))
            if ii[0] == 'bii':
                return '%s.v = %s;' % (lv, em.pass_arg(T('ref', inner=st), real[0]))
        em.fail(e, 'iterator constructor form')
    if n in ('std::basic_string', 'std::__cxx11::basic_string'):
        return '%s = ovm_string_empty();' % lv
    if n.startswith('std::'):
        em.fail(e, 'std constructor not modelled: ' + t.key())
    return None

# ---------------------------------------------------------------------- member calls on std objects
VEC_SIMPLE = {'size': 0, 'empty': 0, 'clear': 0, 'pop_back': 0, 'begin': 0, 'end': 0, 'cbegin': 0, 'cend': 0,
              'rbegin': 0, 'rend': 0, 'front': 0, 'back': 0, 'data': 0, 'capacity': 0, 'shrink_to_fit': 0, 'max_size': 0}

def member_call(em, n, cnode, obj, isarrow, args):
    name = cnode.get('name')
    ot = em.T_of(obj)
    if isarrow: ot = ot.inner
    ot = ot.strip_ref()
    b = obj
    while b.get('kind') == 'ImplicitCastExpr' and b.get('castKind') in ('DerivedToBase', 'UncheckedDerivedToBase', 'NoOp'):
        b = b['inner'][0]
    if isarrow:
        objp = em.E(b)
    elif b.get('valueCategory') == 'prvalue':
        tmp = em.new_temp(em.ctype(em.T_of(b)))
        objp = '(%s = %s, &%s)' % (tmp, em.E(b), tmp)
    else:
        from emit import addr_of
        objp = addr_of(em.E(b))
    real = [a for a in args if a.get('kind') != 'CXXDefaultArgExpr']
    if ot.name in ('std::vector', 'std::set'):
        c = em.ctype(ot).replace('struct ', '')
        et = ot.args[0]
        isset = ot.name == 'std::set'
        if name in VEC_SIMPLE and not real:
            if name in ('front', 'back'):
                if not isset and et.name == 'bool' and parse_type(em.qtype(n)).name != 'bool': return '%s_%s(%s)' % (c, name, objp)
                return '(*%s_%s(%s))' % (c, name, objp)
            if name in ('cbegin', 'cend'): name = name[1:]
            return '%s_%s(%s)' % (c, name, objp)
        if name in ('operator[]', 'at') and len(real) == 1:
            if not isset and et.name == 'bool' and parse_type(em.qtype(n)).name != 'bool':
                return '%s_at(%s, %s)' % (c, objp, em.Eval(real[0]))      # proxy reference: pointer to the _Bool
            return '(*%s_at(%s, %s))' % (c, objp, em.Eval(real[0]))
        if name == 'push_back' and len(real) == 1:
            return '%s_push_back(%s, %s)' % (c, objp, value_arg(em, et, real[0]))
        if name == 'emplace_back':
            return emplace(em, n, c, objp, et, real)
        if name == 'resize':
            if len(real) == 1: return '%s_resize(%s, %s)' % (c, objp, em.Eval(real[0]))
            return '%s_resize_val(%s, %s, %s)' % (c, objp, em.Eval(real[0]), value_arg(em, et, real[1]))
        if name == 'reserve': return '%s_reserve(%s, %s)' % (c, objp, em.Eval(real[0]))
        if name == 'erase':
            if len(real) == 1:
                at = em.T_of(real[0]).strip_ref()
                if iter_info(em, at): return '%s_erase(%s, %s)' % (c, objp, em.Eval(real[0]))
                return '%s_erase_key(%s, %s)' % (c, objp, value_arg(em, et, real[0]))
            return '%s_erase_range(%s, %s, %s)' % (c, objp, em.Eval(real[0]), em.Eval(real[1]))
        if name == 'insert':
            if isset:
                if len(real) == 1: return '%s_insert(%s, %s)' % (c, objp, value_arg(em, et, real[0]))
                at0 = em.T_of(real[0]).strip_ref(); at1 = em.T_of(real[1]).strip_ref()
                if len(real) == 2 and iter_info(em, at0) and iter_info(em, at1):
                    return '%s_insert_range_%s(%s, %s, %s)' % (c, iter_info(em, at0)[0], objp, em.Eval(real[0]), em.Eval(real[1]))
                if len(real) == 2 and iter_info(em, at0):
                    return '%s_insert(%s, %s).first' % (c, objp, value_arg(em, et, real[1]))
            else:
                if len(real) == 2: return '%s_insert(%s, %s, %s)' % (c, objp, em.Eval(real[0]), value_arg(em, et, real[1]))
                if len(real) == 3:
                    k0 = iter_info(em, em.T_of(real[1]).strip_ref())
                    if k0: return '%s_insert_range_at_%s(%s, %s, %s, %s)' % (c, k0[0], objp, em.Eval(real[0]), em.Eval(real[1]), em.Eval(real[2]))
        if name in ('find', 'count') and isset and len(real) == 1:
            return '%s_%s(%s, %s)' % (c, name, objp, value_arg(em, et, real[0]))
        if name == 'swap' and len(real) == 1:
            return '%s_swap(%s, %s)' % (c, objp, em.pass_arg(T('ref', inner=ot), real[0]))
        if name == 'assign' and len(real) == 2:
            k0 = iter_info(em, em.T_of(real[0]).strip_ref())
            if k0: return '(%s_clear(%s), %s_insert_range_%s(%s, %s, %s))' % (c, objp, c, k0[0], objp, em.Eval(real[0]), em.Eval(real[1]))
        em.fail(n, 'std::%s::%s/%d not modelled' % (ot.name, name, len(real)))
    if ot.name.startswith('std::bitset<') and ot.name.endswith('::reference') and name.startswith('operator '):
        return '(*%s)' % objp        # conversion of the bit proxy to bool: the value read
    if ot.name == 'std::unique_ptr':
        if name == 'get' and not real: return '(*%s)' % objp
        if name.startswith('operator ') and not real: return '((*%s) != 0)' % objp
        em.fail(n, 'std::unique_ptr::%s not modelled' % name)
    if ot.name == 'std::bitset':
        nb = int(re.sub(r'[uUlL]', '', str(ot.args[0])))
        o = '(*%s)' % objp
        if name == 'set' and len(real) == 2:
            tmp = em.new_temp('unsigned long')
            return '(*(%s = (unsigned long)(%s), __CPROVER_assert(%s < %d, "vstd-bounds: bitset position in range"), %s = (%s) ? (%s | (1UL << %s)) : (%s & ~(1UL << %s)), %s))' % (tmp, em.Eval(real[0]), tmp, nb, o, em.Eval(real[1]), o, tmp, o, tmp, objp)
        if name == 'test' and len(real) == 1: return '((%s >> (%s)) & 1UL) != 0' % (o, em.Eval(real[0]))
        if name in ('to_ulong', 'to_ullong') and not real: return o
        if name == 'operator[]' and len(real) == 1: return '(((%s >> (%s)) & 1UL) != 0)' % (o, em.Eval(real[0]))
        if name == 'size': return '%dUL' % nb
        em.fail(n, 'std::bitset::%s not modelled' % name)
    if ot.name == 'std::array':
        c = em.ctype(ot).replace('struct ', '')
        nn = int(re.sub(r'[uUlL]', '', str(ot.args[1])))
        if name in ('operator[]', 'at'): return '(*%s_at(%s, %s))' % (c, objp, em.Eval(real[0]))
        if name == 'size': return '%dUL' % nn
        if name in ('begin', 'end', 'front', 'back', 'data', 'fill'):
            if name in ('front', 'back'): return '(*%s_%s(%s))' % (c, name, objp)
            if name == 'fill': return '%s_fill(%s, %s)' % (c, objp, em.Eval(real[0]))
            return '%s_%s(%s)' % (c, name, objp)
        if name in ('cbegin', 'cend'): return '%s_%s(%s)' % (c, name[1:], objp)
        em.fail(n, 'std::array::%s not modelled' % name)
    ii = iter_info(em, ot)
    if ii is not None:
        c = em.ctype(ot).replace('struct ', '')
        if name == 'base' and ii[0] == 'rvit':
            return '%s_base(%s)' % (c, objp)
        if name == 'operator->':
            return '%s_deref(*%s)' % (c, objp)
        em.fail(n, 'iterator member %s not modelled' % name)
    if ot.name == 'std::_Bit_reference':
        if name == 'operator bool': return '(*(*%s))' % objp
        em.fail(n, '_Bit_reference member ' + name)
    if ot.name in ('std::basic_string', 'std::__cxx11::basic_string'):
        if name in ('size', 'length'): return 'ovm_string_size(%s)' % objp
        if name == 'empty': return '(ovm_string_size(%s) == 0)' % objp
        if name == 'c_str' or name == 'data': return '((%s)->data)' % objp
        if name == 'resize' and len(real) == 1: return 'ovm_string_resize(%s, %s)' % (objp, em.Eval(real[0]))
        if name == 'clear': return 'ovm_string_resize(%s, 0)' % objp
        em.fail(n, 'std::string::%s not modelled' % name)
    if 'basic_istream' in ot.name or 'basic_ostream' in ot.name or 'basic_ios' in ot.name:
        if name == 'read' and len(real) == 2: return 'ovm_stream_read(%s, (char *)(%s), %s)' % (objp, em.Eval(real[0]), em.Eval(real[1]))
        if name == 'write' and len(real) == 2: return 'ovm_stream_write(%s, (char *)(%s), %s)' % (objp, em.Eval(real[0]), em.Eval(real[1]))
        if name in ('good', 'fail', 'bad', 'eof') and not real: return 'ovm_stream_%s(%s)' % (name, objp)
        if name in ('tellg', 'tellp') and not real: return 'ovm_stream_tell(%s)' % objp
        if name in ('seekg', 'seekp'): return 'ovm_stream_seek(%s, %s)' % (objp, ', '.join(em.Eval(a) for a in real) if len(real) == 2 else em.Eval(real[0]) + ', 0')
        em.fail(n, 'stream member %s not modelled' % name)
    em.fail(n, 'member call on unmodelled type %s::%s' % (ot.key(), name))

def emplace(em, n, c, objp, et, real):
    if not real:
        tmp = em.new_temp(em.ctype(et))
        from emit import _stmts_to_commas
        return '(%s %s_push_back(%s, %s))' % (_stmts_to_commas(em.default_init_stmt(et, tmp)), c, objp, tmp)
    ats = [em.T_of(a).strip_ref() for a in real]
    if len(real) == 1 and (em.ctype(ats[0]) == em.ctype(et)):
        return '%s_push_back(%s, %s)' % (c, objp, value_arg(em, et, real[0]))
    if et.name in PRIM_C and len(real) == 1:
        return '%s_push_back(%s, (%s)(%s))' % (c, objp, em.ctype(et), em.Eval(real[0]))
    if et.name == 'std::pair' and len(real) == 2:
        tmp = em.new_temp(em.ctype(et))
        return '(%s.first = %s, %s.second = %s, %s_push_back(%s, %s))' % (tmp, value_arg(em, et.args[0], real[0]), tmp, value_arg(em, et.args[1], real[1]), c, objp, tmp)
    rec = em.ix.records.get(et.key())
    if rec is None: em.fail(n, 'emplace_back into ' + et.key())
    cands = []
    for cdecl in rec.get('inner', []):
        if cdecl.get('kind') == 'CXXConstructorDecl' and not cdecl.get('isImplicit'):
            ps = em.params_of(cdecl)
            nreq = len([p for p in ps if not em.parm_has_default(p)])
            if nreq <= len(real) <= len(ps):
                ok = True
                for p, a in zip(ps, ats):
                    pt = em.canon(parse_type(p['type'].get('desugaredQualType') or p['type']['qualType'])).strip_ref()
                    if em.ctype(pt) != em.ctype(a) and not (pt.name in PRIM_C and a.name in PRIM_C): ok = False
                if ok: cands.append(cdecl)
    if len(cands) != 1:
        em.fail(n, 'emplace_back: %d matching constructors of %s' % (len(cands), et.key()))
    tmp = em.new_temp(em.ctype(et))
    from emit import addr_of
    d = em.ix.definition(cands[0]['id']) or cands[0]
    call = em.call_ovm_stmt(d, '&' + tmp, real)
    return '(%s, %s_push_back(%s, %s))' % (call, c, objp, tmp)

# ---------------------------------------------------------------------- operators on std objects
def operator_call(em, n, rd, args):
    op = rd.get('name')
    ts = [em.T_of(a).strip_ref() for a in args]
    t0 = ts[0]
    from emit import addr_of
    ii = iter_info(em, t0)
    if ii is not None:
        c = em.ctype(t0).replace('struct ', '')
        kind = ii[0]
        if op in ('operator++', 'operator--'):
            f = 'inc' if op == 'operator++' else 'dec'
            if len(args) == 2: return '%s_post%s(%s)' % (c, f, addr_of(em.E(args[0])))
            return '(*%s_%s(%s))' % (c, f, addr_of(em.E(args[0])))
        if op == 'operator*' and len(args) == 1:
            if kind in ('bii', 'sii'): return em.E(args[0])
            if ii[1].name == 'bool' and kind in ('vit', 'rvit'):
                # vector<bool> iterators yield a proxy (pointer to the _Bool)
                if n.get('valueCategory') == 'prvalue' and parse_type(em.qtype(n)).name == 'bool':
                    return '(*%s_deref(%s))' % (c, em.Eval(args[0]))
                return '%s_deref(%s)' % (c, em.Eval(args[0]))
            return '(*%s_deref(%s))' % (c, em.Eval(args[0]))
        if op == 'operator->' :
            return '%s_deref(%s)' % (c, em.Eval(args[0]))
        if op in ('operator==', 'operator!=', 'operator<', 'operator>', 'operator<=', 'operator>='):
            f = {'operator==': 'eq', 'operator!=': 'ne', 'operator<': 'lt', 'operator>': 'gt', 'operator<=': 'le', 'operator>=': 'ge'}[op]
            return '%s_%s(%s, %s)' % (c, f, em.Eval(args[0]), em.Eval(args[1]))
        if op in ('operator+', 'operator-') and len(args) == 2:
            if iter_info(em, ts[1]) is not None:
                return '%s_diff(%s, %s)' % (c, em.Eval(args[0]), em.Eval(args[1]))
            f = 'plus' if op == 'operator+' else 'minus'
            return '%s_%s(%s, %s)' % (c, f, em.Eval(args[0]), em.Eval(args[1]))
        if op in ('operator+=', 'operator-='):
            f = 'plus' if op == 'operator+=' else 'minus'
            l = em.E(args[0])
            return '(*(%s = %s_%s(%s, %s), %s))' % (l, c, f, l, em.Eval(args[1]), addr_of(l))
        if op == 'operator=':
            if kind in ('bii',):
                et = ii[1]
                vc = 'vec_' + em.elemname(et)
                return '%s_push_back((%s).v, %s)' % (vc, em.E(args[0]), value_arg(em, et, args[1]))
            if kind == 'sii':
                et = ii[1]
                return 'set_%s_insert_v((%s).s, %s)' % (em.elemname(et), em.E(args[0]), value_arg(em, et, args[1]))
            l = em.E(args[0])
            return '(*(%s = %s, %s))' % (l, em.Eval(args[1]), addr_of(l))
        if op == 'operator[]':
            return '(*%s_deref(%s_plus(%s, %s)))' % (c, c, em.Eval(args[0]), em.Eval(args[1]))
        em.fail(n, 'iterator operator %s not modelled' % op)
    if t0.name == 'std::vector' or t0.name == 'std::array':
        c = em.ctype(t0).replace('struct ', '')
        if op == 'operator[]':
            return '(*%s_at(%s, %s))' % (c, addr_of(em.E(args[0])), em.Eval(args[1])) if not (t0.name == 'std::vector' and t0.args[0].name == 'bool') \
                else _bool_at(em, n, c, args)
        if op == 'operator=':
            items = il_items(em, args[1]) if t0.name == 'std::vector' else None
            if items is not None:
                # v = {a, b, ...}: the items are evaluated into a fresh vector first (they may read v), then it replaces v
                from emit import _stmts_to_commas
                tmp = em.new_temp(em.ctype(t0))
                l = em.E(args[0])
                return '(*(%s %s = %s, %s))' % (_stmts_to_commas(vec_from_items(em, t0, tmp, items)), l, tmp, addr_of(l))
            r = assign_std(em, t0, args[0], args[1])
            if r is not None: return r
            if t0.name == 'std::array':
                l = em.E(args[0])
                return '(*(%s = %s, %s))' % (l, em.copy_expr(t0, em.Eval(args[1])), addr_of(l))
        if op in ('operator==', 'operator!='):
            s = '%s_eq(%s, %s)' % (c, addr_of(em.E(args[0])), addr_of(em.E(args[1])))
            return s if op == 'operator==' else '(!%s)' % s
        if op == 'operator<':
            return '%s_lt(%s, %s)' % (c, addr_of(em.E(args[0])), addr_of(em.E(args[1])))
    if t0.name == 'std::set':
        c = em.ctype(t0).replace('struct ', '')
        if op == 'operator=':
            return assign_std(em, t0, args[0], args[1])
        if op in ('operator==', 'operator!='):
            s = '%s_eq(%s, %s)' % (c, addr_of(em.E(args[0])), addr_of(em.E(args[1])))
            return s if op == 'operator==' else '(!%s)' % s
    if t0.name == 'std::unique_ptr':
        if op == 'operator->': return em.Eval(args[0])
        if op == 'operator*': return '(*%s)' % em.Eval(args[0])
        if op in ('operator==', 'operator!=') and len(args) == 2: return '(%s %s %s)' % (em.Eval(args[0]), op[8:], em.Eval(args[1]))
    if t0.name == 'std::bitset' and op == 'operator[]':
        return '(((%s >> (%s)) & 1UL) != 0)' % (em.Eval(args[0]), em.Eval(args[1]))
    if t0.name == 'std::_Bit_reference':
        if op == 'operator=':
            rhs = args[1]
            rt = ts[1]
            rv = em.Eval(rhs)
            if rt.name == 'std::_Bit_reference': rv = '(*%s)' % rv
            return '(*(%s) = %s)' % (em.Eval(args[0]), rv)
    if t0.name == 'std::pair':
        c = em.ctype(t0).replace('struct ', '')
        if op == 'operator=':
            l = em.E(args[0])
            return '(*(%s = %s, %s))' % (l, em.copy_expr(t0, em.Eval(args[1])), addr_of(l))
        if op in ('operator==', 'operator!=', 'operator<'):
            f = {'operator==': 'eq', 'operator!=': 'ne', 'operator<': 'lt'}[op]
            return '%s_%s(%s, %s)' % (c, f, addr_of(em.E(args[0])), addr_of(em.E(args[1])))
    if t0.name in ('std::basic_string', 'std::__cxx11::basic_string') or (len(ts) > 1 and ts[1].name in ('std::basic_string', 'std::__cxx11::basic_string')):
        if op == 'operator=':
            l = em.E(args[0]); return '(*(%s = ovm_string_empty(), %s))' % (l, addr_of(l))
        if op in ('operator==', 'operator!='):
            return '(ovm_string_nondet_eq() %s 1)' % op[8:]
        if op in ('operator+', 'operator+='):
            if op == 'operator+=':
                l = em.E(args[0]); return '(*%s)' % addr_of(l)
            return 'ovm_string_empty()'
    if 'basic_ostream' in t0.name or 'basic_istream' in t0.name:
        return '(*ovm_stream_op(%s))' % addr_of(em.E(args[0]))
    em.fail(n, 'operator %s on %s not modelled' % (op, t0.key()))

def _strval(em, a, t):
    return 'ovm_string_empty()'

def _bool_at(em, n, c, args):
    from emit import addr_of
    p = '%s_at(%s, %s)' % (c, addr_of(em.E(args[0])), em.Eval(args[1]))
    # const vector<bool>::operator[] yields bool; non-const yields the proxy (pointer)
    if parse_type(em.qtype(n)).name == 'bool': return '(*%s)' % p
    return p

# ---------------------------------------------------------------------- free std functions
def free_call(em, n, rd, args):
    name = rd.get('name')
    from emit import addr_of
    real = [a for a in args if a.get('kind') != 'CXXDefaultArgExpr']
    ts = [em.T_of(a).strip_ref() for a in real]
    def itc(i):
        return em.ctype(ts[i]).replace('struct ', '')
    if name in ('move', 'forward') and len(real) == 1:
        return em.E(real[0])
    if name == 'make_pair':
        rt = em.T_of(n)
        tmp = em.new_temp(em.ctype(rt))
        return '(%s.first = %s, %s.second = %s, %s)' % (tmp, value_arg(em, rt.args[0], real[0]), tmp, value_arg(em, rt.args[1], real[1]), tmp)
    if name == 'swap' and len(real) == 2:
        t = ts[0]
        if em.is_trivially_copyable(t) or t.name in ('std::vector', 'std::set') or True:
            tmp = em.new_temp(em.ctype(t))
            a = em.E(real[0]); b = em.E(real[1])
            return '(%s = %s, %s = %s, %s = %s, (void)0)' % (tmp, a, a, b, b, tmp)
    if name in ('max', 'min') and len(real) == 2 and ts[0].name in PRIM_C:
        a = em.Eval(real[0]); b = em.Eval(real[1])
        tmp1 = em.new_temp(em.ctype(ts[0])); tmp2 = em.new_temp(em.ctype(ts[0]))
        if name == 'max':
            return '(*(%s = %s, %s = %s, (%s < %s) ? &%s : &%s))' % (tmp1, a, tmp2, b, tmp1, tmp2, tmp2, tmp1)
        return '(*(%s = %s, %s = %s, (%s < %s) ? &%s : &%s))' % (tmp1, a, tmp2, b, tmp2, tmp1, tmp2, tmp1)
    if ts and ts[0].kind == 'ptr' and name in PTR_ALGS:
        r = ptr_alg(em, n, name, real, ts)
        if r is not None: return r
    ii = iter_info(em, ts[0]) if ts else None
    if ii is not None:
        kind, et = ii
        en = em.elemname(et)
        c = itc(0)
        if name == 'rotate' and len(real) == 3:
            em.vstd_req.setdefault('alg_rotate_%s_%s' % (kind, en), ('alg', ('rotate', kind, et)))
            return 'vstd_rotate_%s_%s(%s, %s, %s)' % (kind, en, em.Eval(real[0]), em.Eval(real[1]), em.Eval(real[2]))
        if name in ('find', 'remove', 'count') and len(real) == 3:
            em.vstd_req.setdefault('alg_%s_%s_%s' % (name, kind, en), ('alg', (name, kind, et)))
            return 'vstd_%s_%s_%s(%s, %s, %s)' % (name, kind, en, em.Eval(real[0]), em.Eval(real[1]), value_arg(em, et, real[2]))
        if name in ('sort', 'unique', 'adjacent_find', 'reverse', 'max_element', 'min_element') and len(real) == 2:
            em.vstd_req.setdefault('alg_%s_%s_%s' % (name, kind, en), ('alg', (name, kind, et)))
            return 'vstd_%s_%s_%s(%s, %s)' % (name, kind, en, em.Eval(real[0]), em.Eval(real[1]))
        if name in ('unique', 'sort', 'find_if', 'remove_if', 'any_of', 'all_of', 'none_of', 'count_if') and len(real) == 3 and em.record_of(ts[2]) is not None and kind == 'vit':
            # algorithm with a closure/functor predicate: operator() of the closure is extracted and called
            rec = em.record_of(ts[2])
            opc = [c for c in rec.get('inner', []) if c.get('kind') == 'CXXMethodDecl' and c.get('name') == 'operator()']
            if len(opc) != 1: em.fail(n, 'predicate object without unique operator()')
            cn = em.request_func(opc[0])
            ps = em.params_of(opc[0])
            byref = [em.canon(parse_type(p['type'].get('desugaredQualType') or p['type']['qualType'])).is_ref() for p in ps]
            key = 'algp_%s_%s_%s' % (name, en, cn)
            em.vstd_req.setdefault(key, ('algp', (name, kind, et, cn, byref, em.ctype(ts[2]))))
            return 'vstd_%s_p_%s_%s(%s, %s, %s)' % (name, en, cn, em.Eval(real[0]), em.Eval(real[1]), em.Eval(real[2]))
        if name == 'accumulate' and len(real) == 3 and kind == 'vit':
            em.vstd_req.setdefault('alg_accumulate_%s_%s' % (kind, en), ('alg', ('accumulate', kind, et)))
            return 'vstd_accumulate_%s_%s(%s, %s, %s)' % (kind, en, em.Eval(real[0]), em.Eval(real[1]), em.Eval(real[2]))
        if name == 'distance' and len(real) == 2:
            return '%s_diff(%s, %s)' % (c, em.Eval(real[1]), em.Eval(real[0]))
        if name in ('next', 'prev'):
            k = em.Eval(real[1]) if len(real) > 1 else '1'
            return '%s_%s(%s, %s)' % (c, 'plus' if name == 'next' else 'minus', em.Eval(real[0]), k)
        if name == 'copy' and len(real) == 3:
            oi = iter_info(em, ts[2])
            if oi is None: em.fail(n, 'std::copy output iterator')
            em.vstd_req.setdefault('alg_copy_%s_%s_%s' % (kind, oi[0], en), ('alg', ('copy', (kind, oi[0]), et)))
            return 'vstd_copy_%s_%s_%s(%s, %s, %s)' % (kind, oi[0], en, em.Eval(real[0]), em.Eval(real[1]), em.Eval(real[2]))
        if name == 'transform' and len(real) == 4:
            return transform(em, n, real, ts)
        if name == 'back_inserter': pass
    if name == 'back_inserter' and len(real) == 1:
        rt = em.T_of(n)
        tmp = em.new_temp(em.ctype(rt))
        return '(%s.v = %s, %s)' % (tmp, addr_of(em.E(real[0])), tmp)
    if name == 'inserter' and len(real) == 2:
        rt = em.T_of(n)
        tmp = em.new_temp(em.ctype(rt))
        return '(%s.s = %s, %s)' % (tmp, addr_of(em.E(real[0])), tmp)
    if name in ('begin', 'end') and len(real) == 1 and ts[0].name in ('std::vector', 'std::set', 'std::array'):
        return '%s_%s(%s)' % (em.ctype(ts[0]).replace('struct ', ''), name, addr_of(em.E(real[0])))
    if name == 'get' and len(real) == 1 and ts[0].name == 'std::array':
        return em.E(real[0]) + '.d[?]'
    if name == 'to_string': return 'ovm_string_empty()'
    if name == 'abs' and len(real) == 1:
        v = em.Eval(real[0]); tmp = em.new_temp(em.ctype(ts[0]))
        return '(%s = %s, %s < 0 ? -%s : %s)' % (tmp, v, tmp, tmp, tmp)
    if name in ('memcpy', 'memset', 'memcmp', 'memmove') and len(real) == 3:
        return '%s(%s, %s, %s)' % ((name,) + tuple(em.Eval(a) for a in real))
    if name in ('max', 'min', 'lowest') and len(real) == 0:
        ct = em.ctype(em.T_of(n))
        tab = {'unsigned char': ('255', '0'), 'unsigned short': ('65535', '0'), 'unsigned int': ('4294967295U', '0U'), 'unsigned long': ('18446744073709551615UL', '0UL'),
               'int': ('2147483647', '(-2147483647 - 1)'), 'long': ('9223372036854775807L', '(-9223372036854775807L - 1)'), 'signed char': ('127', '(-128)'), 'short': ('32767', '(-32768)'), 'char': ('127', '(-128)')}
        if ct in tab: return tab[ct][0 if name == 'max' else 1]
        em.fail(n, 'numeric_limits<%s>::%s' % (ct, name))
    if name == 'copy' and len(real) == 3 and all(t.kind == 'ptr' for t in [em.T_of(a) for a in real]):
        return 'vstd_copy_ptr((unsigned char *)(%s), (unsigned char *)(%s), (unsigned char *)(%s), sizeof(*(%s)))' % (em.Eval(real[0]), em.Eval(real[1]), em.Eval(real[2]), em.Eval(real[0]))
    if name in ('sqrt', 'fabs', 'floor', 'ceil') and len(real) == 1:
        return '%s(%s)' % (name, em.Eval(real[0]))
    em.fail(n, 'free function %s/%d (%s) not modelled' % (name, len(real), ', '.join(t.key() for t in ts)))

PTR_ALGS = ('equal', 'fill', 'accumulate', 'inner_product', 'lexicographical_compare', 'max_element', 'min_element', 'transform', 'copy_n')

def ptr_alg(em, n, name, real, ts):
    """std algorithms over raw pointer ranges (std::array iterators): C models following the standard's definitions"""
    def cE(i): return em.ctype(_noconst(ts[i].inner))
    def clos(i, args):
        rec = em.record_of(ts[i])
        if rec is None: em.fail(n, 'std::%s: callable is not a closure object' % name)
        opc = [c for c in rec.get('inner', []) if c.get('kind') == 'CXXMethodDecl' and c.get('name') == 'operator()']
        if len(opc) != 1: em.fail(n, 'callable without unique operator()')
        cn = em.request_func(opc[0])
        ps = em.params_of(opc[0])
        byref = [em.canon(parse_type(q['type'].get('desugaredQualType') or q['type']['qualType'])).is_ref() for q in ps]
        # reference parameters receive the address of the element itself (no copy: the closure reads the very object)
        call = '%s(&p, %s)' % (cn, ', '.join(('(void *)&' + a) if byref[k] else a for k, a in enumerate(args)))
        return cn, em.ctype(ts[i]), call
    ev = [em.Eval(a) for a in real]
    k = len(real)
    E = cE(0)
    sig = None
    if name == 'equal' and k == 3 and ts[2].kind == 'ptr':
        fn = 'vstd_p_equal_%s_%s' % (sanitize(E), sanitize(cE(2)))
        f = '_Bool %s(const %s *a, const %s *l, const %s *b) { long n = l - a; _Bool r = 1; for (long i = 0; i < n; i++) if (!(a[i] == b[i])) r = 0; return r; }' % (fn, E, E, cE(2))
    elif name == 'fill' and k == 3:
        V = em.ctype(ts[2]); fn = 'vstd_p_fill_%s_%s' % (sanitize(E), sanitize(V))
        f = 'void %s(%s *a, %s *l, %s v) { long n = l - a; for (long i = 0; i < n; i++) a[i] = v; }' % (fn, E, E, V)
    elif name == 'accumulate' and k == 3:
        R = em.ctype(ts[2]); fn = 'vstd_p_accumulate_%s_%s' % (sanitize(E), sanitize(R))
        f = '%s %s(const %s *a, const %s *l, %s acc) { long n = l - a; for (long i = 0; i < n; i++) acc = acc + a[i]; return acc; }' % (R, fn, E, E, R)
    elif name == 'accumulate' and k == 4:
        R = em.ctype(ts[2]); cn, PT, call = clos(3, ['acc', 'a[i]'])
        fn = 'vstd_p_accumulate_%s_%s' % (sanitize(E), cn)
        f = '%s %s(const %s *a, const %s *l, %s acc, %s p) { long n = l - a; for (long i = 0; i < n; i++) { acc = %s; } return acc; }' % (R, fn, E, E, R, PT, call)
    elif name == 'inner_product' and k == 4 and ts[2].kind == 'ptr':
        R = em.ctype(ts[3]); fn = 'vstd_p_inner_product_%s_%s_%s' % (sanitize(E), sanitize(cE(2)), sanitize(R))
        f = '%s %s(const %s *a, const %s *l, const %s *b, %s acc) { long n = l - a; for (long i = 0; i < n; i++) acc = acc + a[i] * b[i]; return acc; }' % (R, fn, E, E, cE(2), R)
    elif name == 'lexicographical_compare' and k == 4:
        fn = 'vstd_p_lexcmp_%s_%s' % (sanitize(E), sanitize(cE(2)))
        f = ('_Bool %s(const %s *a, const %s *la, const %s *b, const %s *lb) { long n = la - a, m = lb - b; _Bool decided = 0, r = 0; '
             'for (long i = 0; i < n; i++) if (!decided) { if (i >= m) { decided = 1; r = 0; } else if (a[i] < b[i]) { decided = 1; r = 1; } else if (b[i] < a[i]) { decided = 1; r = 0; } } '
             'if (!decided) r = n < m; return r; }') % (fn, E, E, cE(2), cE(2))
    elif name in ('max_element', 'min_element') and k == 2:
        fn = 'vstd_p_%s_%s' % (name, sanitize(E))
        cmp_ = 'a[best] < a[i]' if name == 'max_element' else 'a[i] < a[best]'
        f = '%s *%s(%s *a, %s *l) { long n = l - a; long best = 0; for (long i = 1; i < n; i++) if (%s) best = i; return n <= 0 ? l : a + best; }' % (E, fn, E, E, cmp_)
    elif name in ('max_element', 'min_element') and k == 3:
        xy = ['a[best]', 'a[i]'] if name == 'max_element' else ['a[i]', 'a[best]']
        cn, PT, call = clos(2, xy)
        fn = 'vstd_p_%s_%s_%s' % (name, sanitize(E), cn)
        f = '%s *%s(%s *a, %s *l, %s p) { long n = l - a; long best = 0; for (long i = 1; i < n; i++) { if (%s) best = i; } return n <= 0 ? l : a + best; }' % (E, fn, E, E, PT, call)
    elif name == 'transform' and k == 4 and ts[2].kind == 'ptr':
        cn, PT, call = clos(3, ['a[i]'])
        O = cE(2); fn = 'vstd_p_transform_%s_%s_%s' % (sanitize(E), sanitize(O), cn)
        f = '%s *%s(const %s *a, const %s *l, %s *o, %s p) { long n = l - a; for (long i = 0; i < n; i++) { o[i] = %s; } return o + n; }' % (O, fn, E, E, O, PT, call)
    elif name == 'transform' and k == 5 and ts[2].kind == 'ptr' and ts[3].kind == 'ptr':
        cn, PT, call = clos(4, ['a[i]', 'b[i]'])
        E2 = cE(2); O = cE(3); fn = 'vstd_p_transform2_%s_%s_%s_%s' % (sanitize(E), sanitize(E2), sanitize(O), cn)
        f = '%s *%s(const %s *a, const %s *l, const %s *b, %s *o, %s p) { long n = l - a; for (long i = 0; i < n; i++) { o[i] = %s; } return o + n; }' % (O, fn, E, E, E2, O, PT, call)
    elif name == 'copy_n' and k == 3 and ts[2].kind == 'ptr':
        O = cE(2); fn = 'vstd_p_copy_n_%s_%s' % (sanitize(E), sanitize(O))
        f = '%s *%s(const %s *a, long n, %s *o) { for (long i = 0; i < n; i++) o[i] = a[i]; return o + (n > 0 ? n : 0); }' % (O, fn, E, O)
    else:
        return None
    em.vstd_req.setdefault('palg_' + fn, ('palg', f + '\n'))
    return '%s(%s)' % (fn, ', '.join(ev))

def transform(em, n, real, ts):
    """std::transform(first, last, out, unary_op) where unary_op is a function pointer/reference to an OVM function"""
    ii = iter_info(em, ts[0]); oi = iter_info(em, ts[2])
    if ii is None or oi is None: em.fail(n, 'std::transform iterator kinds')
    f = real[3]
    while f.get('kind') in ('ImplicitCastExpr', 'ParenExpr', 'UnaryOperator'): f = f['inner'][0]
    if f.get('kind') != 'DeclRefExpr' or f['referencedDecl'].get('kind') not in ('FunctionDecl', 'CXXMethodDecl'):
        em.fail(n, 'std::transform with a non-function callable')
    d = em.ix.by_id.get(f['referencedDecl']['id'])
    if d is None: em.fail(n, 'std::transform callable is not an OVM function')
    cn = em.request_func(d)
    dd = em.ix.definition(em.ix.first.get(d['id'], d['id'])) or d
    pt = em.canon(parse_type(em.params_of(dd)[0]['type'].get('desugaredQualType') or em.params_of(dd)[0]['type']['qualType']))
    rt = em.ret_type_of(dd)
    key = 'alg_transform_%s_%s_%s' % (ii[0], oi[0], cn)
    em.vstd_req.setdefault(key, ('transform', (ii, oi, cn, pt.is_ref(), rt)))
    return 'vstd_transform_%s_%s_%s(%s, %s, %s)' % (ii[0], oi[0], cn, em.Eval(real[0]), em.Eval(real[1]), em.Eval(real[2]))

def member_field(em, n, base):
    """MemberExpr on a std object (pair.first/second)"""
    bt = em.T_of(base)
    if n.get('isArrow'): bt = bt.inner
    bt = bt.strip_ref()
    from emit import _prim
    if bt.name == 'std::pair' and n.get('name') in ('first', 'second'):
        be = em.E(base)
        return '%s%s%s' % (_prim(be), '->' if n.get('isArrow') else '.', n['name'])
    em.fail(n, 'field %s of std type %s' % (n.get('name'), bt.key()))

# ---------------------------------------------------------------------- vstd generator
def elem_ops(em, e):
    """C expression templates for equality / less-than / default-init of element type e (pointers to elements a,b)"""
    if e.kind == 'ptr' or e.name in PRIM_C or em.is_enum(e):
        return dict(eq='(*a == *b)', lt='(*a < *b)', init=lambda lv: '%s = 0;' % lv)
    key = e.key()
    if e.name in ('std::vector', 'std::set', 'std::pair', 'std::array'):
        c = em.ctype(e).replace('struct ', '')
        return dict(eq='%s_eq(a, b)' % c, lt='%s_lt(a, b)' % c, init=lambda lv: em.default_init_stmt(e, lv))
    rec = em.ix.records.get(key)
    if rec is None:
        ii = iter_info(em, e)
        if ii is not None:
            return dict(eq='((a)->i == (b)->i)', lt='((a)->i < (b)->i)', init=lambda lv: '')
        raise Cxx2cError('vstd: no element operations for ' + key)
    def find_op(opname):
        def search(k):
            r = em.ix.records.get(k)
            if r is None: return None
            for c in r.get('inner', []):
                if c.get('kind') == 'CXXMethodDecl' and c.get('name') == opname:
                    return c, k
            for b in r.get('bases', []):
                bk = em.canon(parse_type(b['type'].get('desugaredQualType') or b['type']['qualType'])).key()
                x = search(bk)
                if x: return x
            return None
        return search(key)
    out = {}
    for opn, nm in (('operator==', 'eq'), ('operator<', 'lt')):
        f = find_op(opn)
        if f is None:
            out[nm] = None; continue
        d, k = f
        try:
            cn = em.request_func(d)
        except Cxx2cError:
            out[nm] = None; continue
        bc = em.ctype(em.canon(parse_type(k)))
        out[nm] = '%s((%s *)a, (%s *)b)' % (cn, bc, bc)
    out['init'] = lambda lv: em.default_init_stmt(e, lv)
    return out

def gen_vstd(em):
    """returns (struct_text, func_text) for all requested vstd instances; may request more OVM functions"""
    structs = []; funcs = []; protos = []
    done = set()
    # iterate until no new requests appear (element ops may request functions/types)
    while True:
        pending = [k for k in em.vstd_req if k not in done]
        if not pending: break
        for k in pending:
            done.add(k)
            kind, info = em.vstd_req[k]
            if kind == 'vec': s, p, f = gen_vec(em, info)
            elif kind == 'set': s, p, f = gen_set(em, info)
            elif kind == 'pair': s, p, f = gen_pair(em, k, info)
            elif kind == 'arr': s, p, f = gen_arr(em, k, info)
            elif kind == 'alg': s, p, f = gen_alg(em, info)
            elif kind == 'transform': s, p, f = gen_transform(em, k, info)
            elif kind == 'algp': s, p, f = gen_algp(em, info)
            elif kind == 'palg': s, p, f = ('', _protos_of(info), info)
            elif kind == 'il': s, p, f = ('', '', '')
            else: raise Cxx2cError('vstd kind ' + kind)
            structs.append((k, s)); protos.append(p); funcs.append(f)
    return structs, protos, funcs

def _protos_of(text):
    out = []
    for m in re.finditer(r'^(static inline )?((?:struct \w+|_Bool|void|unsigned long|long|int|[A-Za-z_]\w*)[ \*]+\w+\([^)]*\))\s*\{', text, re.M):
        out.append(m.group(2) + ';')
    return '\n'.join(out)

def gen_vec(em, e):
    en = em.elemname(e); E = em.ctype(e); V = 'vec_' + en
    ops = elem_ops(em, e)
    triv = em.is_trivially_copyable(e)
    cp = (lambda src: em.copy_expr(e, src)) if not triv else (lambda src: src)
    inline = bool(em.cfg.get('vstd_inline'))
    s = ('''#ifndef VSTD_CAP_%(V)s
#define VSTD_CAP_%(V)s VSTD_CAP_DEFAULT
#endif
struct %(V)s { %(E)s data[VSTD_CAP_%(V)s]; unsigned long size; unsigned long cap; };''' if inline else '''struct %(V)s { %(E)s *data; unsigned long size; unsigned long cap; };''') % dict(V=V, E=E, en=en) + '''
struct vit_%(en)s { struct %(V)s *v; unsigned long i; };
struct rvit_%(en)s { struct %(V)s *v; unsigned long i; };
struct bii_%(en)s { struct %(V)s *v; };''' % dict(V=V, E=E, en=en)
    initelem = ops['init']('v->data[k]')
    f = '''
#ifndef VSTD_CAP_%(V)s
#define VSTD_CAP_%(V)s VSTD_CAP_DEFAULT
#endif
%(INIT)s
unsigned long %(V)s_size(struct %(V)s *v) { return v->size; }
unsigned long %(V)s_capacity(struct %(V)s *v) { return v->cap; }
unsigned long %(V)s_max_size(struct %(V)s *v) { return VSTD_MAX_SIZE; }
_Bool %(V)s_empty(struct %(V)s *v) { return v->size == 0; }
void %(V)s_clear(struct %(V)s *v) { v->size = 0; }
void %(V)s_shrink_to_fit(struct %(V)s *v) { }
%(E)s *%(V)s_data(struct %(V)s *v) { return v->data; }
%(E)s *%(V)s_at(struct %(V)s *v, unsigned long i) { __CPROVER_assert(i < v->size, "vstd-bounds: vector index in range"); return &v->data[i]; }
%(E)s *%(V)s_front(struct %(V)s *v) { __CPROVER_assert(v->size > 0, "vstd-bounds: front() on non-empty vector"); return &v->data[0]; }
%(E)s *%(V)s_back(struct %(V)s *v) { __CPROVER_assert(v->size > 0, "vstd-bounds: back() on non-empty vector"); return &v->data[v->size - 1]; }
void %(V)s_reserve(struct %(V)s *v, unsigned long n) { if (n > VSTD_MAX_SIZE) { ovm_exc = 2; return; } }
void %(V)s_push_back(struct %(V)s *v, %(E)s x) { __CPROVER_assert(v->size < v->cap, "vstd-capacity: push_back within modelled capacity"); v->data[v->size] = x; v->size++; }
void %(V)s_pop_back(struct %(V)s *v) { __CPROVER_assert(v->size > 0, "vstd-bounds: pop_back() on non-empty vector"); v->size--; }
void %(V)s_resize(struct %(V)s *v, unsigned long n) {
  if (n > VSTD_MAX_SIZE) { ovm_exc = 2; return; }
  __CPROVER_assert(n <= v->cap, "vstd-capacity: resize within modelled capacity");
  for (unsigned long k = v->size; k < n; k++) { %(initelem)s }
  v->size = n; }
void %(V)s_resize_val(struct %(V)s *v, unsigned long n, %(E)s x) {
  if (n > VSTD_MAX_SIZE) { ovm_exc = 2; return; }
  __CPROVER_assert(n <= v->cap, "vstd-capacity: resize within modelled capacity");
  for (unsigned long k = v->size; k < n; k++) { v->data[k] = %(cpx)s; }
  v->size = n; }
%(COPY)s
struct %(V)s %(V)s_move(struct %(V)s *src) { struct %(V)s r = *src; %(V)s_init(src); return r; }
struct %(V)s *%(V)s_assign(struct %(V)s *v, struct %(V)s x) { *v = x; return v; }
void %(V)s_swap(struct %(V)s *a, struct %(V)s *b) { struct %(V)s t = *a; *a = *b; *b = t; }
struct vit_%(en)s %(V)s_begin(struct %(V)s *v) { struct vit_%(en)s it; it.v = v; it.i = 0; return it; }
struct vit_%(en)s %(V)s_end(struct %(V)s *v) { struct vit_%(en)s it; it.v = v; it.i = v->size; return it; }
struct rvit_%(en)s %(V)s_rbegin(struct %(V)s *v) { struct rvit_%(en)s it; it.v = v; it.i = v->size; return it; }
struct rvit_%(en)s %(V)s_rend(struct %(V)s *v) { struct rvit_%(en)s it; it.v = v; it.i = 0; return it; }
struct vit_%(en)s *vit_%(en)s_inc(struct vit_%(en)s *it) { it->i++; return it; }
struct vit_%(en)s *vit_%(en)s_dec(struct vit_%(en)s *it) { it->i--; return it; }
struct vit_%(en)s vit_%(en)s_postinc(struct vit_%(en)s *it) { struct vit_%(en)s o = *it; it->i++; return o; }
struct vit_%(en)s vit_%(en)s_postdec(struct vit_%(en)s *it) { struct vit_%(en)s o = *it; it->i--; return o; }
%(E)s *vit_%(en)s_deref(struct vit_%(en)s it) { __CPROVER_assert(it.i < it.v->size, "vstd-bounds: iterator dereference in range"); return &it.v->data[it.i]; }
_Bool vit_%(en)s_eq(struct vit_%(en)s a, struct vit_%(en)s b) { return a.i == b.i; }
_Bool vit_%(en)s_ne(struct vit_%(en)s a, struct vit_%(en)s b) { return a.i != b.i; }
_Bool vit_%(en)s_lt(struct vit_%(en)s a, struct vit_%(en)s b) { return a.i < b.i; }
_Bool vit_%(en)s_gt(struct vit_%(en)s a, struct vit_%(en)s b) { return a.i > b.i; }
_Bool vit_%(en)s_le(struct vit_%(en)s a, struct vit_%(en)s b) { return a.i <= b.i; }
_Bool vit_%(en)s_ge(struct vit_%(en)s a, struct vit_%(en)s b) { return a.i >= b.i; }
struct vit_%(en)s vit_%(en)s_plus(struct vit_%(en)s a, long n) { a.i = a.i + (unsigned long)n; return a; }
struct vit_%(en)s vit_%(en)s_minus(struct vit_%(en)s a, long n) { a.i = a.i - (unsigned long)n; return a; }
long vit_%(en)s_diff(struct vit_%(en)s a, struct vit_%(en)s b) { return (long)(a.i - b.i); }
struct rvit_%(en)s *rvit_%(en)s_inc(struct rvit_%(en)s *it) { it->i--; return it; }
struct rvit_%(en)s *rvit_%(en)s_dec(struct rvit_%(en)s *it) { it->i++; return it; }
struct rvit_%(en)s rvit_%(en)s_postinc(struct rvit_%(en)s *it) { struct rvit_%(en)s o = *it; it->i--; return o; }
%(E)s *rvit_%(en)s_deref(struct rvit_%(en)s it) { __CPROVER_assert(it.i >= 1 && it.i <= it.v->size, "vstd-bounds: reverse iterator dereference in range"); return &it.v->data[it.i - 1]; }
_Bool rvit_%(en)s_eq(struct rvit_%(en)s a, struct rvit_%(en)s b) { return a.i == b.i; }
_Bool rvit_%(en)s_ne(struct rvit_%(en)s a, struct rvit_%(en)s b) { return a.i != b.i; }
struct rvit_%(en)s rvit_%(en)s_plus(struct rvit_%(en)s a, long n) { a.i = a.i - (unsigned long)n; return a; }
struct rvit_%(en)s rvit_%(en)s_minus(struct rvit_%(en)s a, long n) { a.i = a.i + (unsigned long)n; return a; }
long rvit_%(en)s_diff(struct rvit_%(en)s a, struct rvit_%(en)s b) { return (long)(b.i - a.i); }
struct vit_%(en)s rvit_%(en)s_base(struct rvit_%(en)s *a) { struct vit_%(en)s it; it.v = a->v; it.i = a->i; return it; }
struct vit_%(en)s %(V)s_erase(struct %(V)s *v, struct vit_%(en)s it) {
  __CPROVER_assert(it.i < v->size, "vstd-bounds: erase position in range");
  for (unsigned long k = it.i; k + 1 < v->size; k++) { v->data[k] = v->data[k + 1]; }
  v->size--; return it; }
struct vit_%(en)s %(V)s_erase_range(struct %(V)s *v, struct vit_%(en)s a, struct vit_%(en)s b) {
  __CPROVER_assert(a.i <= b.i && b.i <= v->size, "vstd-bounds: erase range in range");
  unsigned long d = b.i - a.i;
  if (d != 0) { for (unsigned long k = a.i; k + d < v->size; k++) { v->data[k] = v->data[k + d]; } v->size -= d; }
  return a; }
struct vit_%(en)s %(V)s_insert(struct %(V)s *v, struct vit_%(en)s it, %(E)s x) {
  __CPROVER_assert(it.i <= v->size, "vstd-bounds: insert position in range");
  __CPROVER_assert(v->size < v->cap, "vstd-capacity: insert within modelled capacity");
  for (unsigned long k = v->size; k > it.i; k--) { v->data[k] = v->data[k - 1]; }
  v->data[it.i] = x; v->size++; return it; }
void %(V)s_insert_range_vit(struct %(V)s *v, struct vit_%(en)s a, struct vit_%(en)s b) {
  __CPROVER_assert(a.i <= b.i && b.i <= a.v->size, "vstd-bounds: source range in range");
  for (unsigned long k = a.i; k < b.i; k++) { %(V)s_push_back(v, %(cpa)s); } }
void %(V)s_insert_range_rvit(struct %(V)s *v, struct rvit_%(en)s a, struct rvit_%(en)s b) {
  __CPROVER_assert(b.i <= a.i && a.i <= a.v->size, "vstd-bounds: source range in range");
  for (unsigned long k = a.i; k > b.i; k--) { %(V)s_push_back(v, %(cpr)s); } }
''' % dict(V=V, E=E, en=en, initelem=initelem, cpx=cp('x'), cpk=cp('src->data[k]'), cpa=cp('a.v->data[k]'), cpr=cp('a.v->data[k - 1]'),
           INIT=('void %(V)s_init(struct %(V)s *v) { v->size = 0; v->cap = VSTD_CAP_%(V)s; }' if inline else 'void %(V)s_init(struct %(V)s *v) { v->data = (%(E)s *)malloc(sizeof(%(E)s) * VSTD_CAP_%(V)s); v->size = 0; v->cap = VSTD_CAP_%(V)s; }') % dict(V=V, E=E),
           COPY=('struct %(V)s %(V)s_copy(struct %(V)s *src) { return *src; }' if inline else '''struct %(V)s %(V)s_copy(struct %(V)s *src) {
  struct %(V)s r; r.cap = src->cap > VSTD_CAP_%(V)s ? src->cap : VSTD_CAP_%(V)s; r.data = (%(E)s *)malloc(sizeof(%(E)s) * r.cap); r.size = src->size;
  for (unsigned long k = 0; k < src->size; k++) { r.data[k] = %(cpk)s; }
  return r; }''') % dict(V=V, E=E, cpk=cp('src->data[k]')))
    if ops.get('eq'):
        f += '''_Bool %(V)s_eq(struct %(V)s *x, struct %(V)s *y) {
  if (x->size != y->size) return 0;
  _Bool r = 1;
  for (unsigned long k = 0; k < x->size; k++) { %(E)s *a = &x->data[k]; %(E)s *b = &y->data[k]; if (!(%(eq)s)) r = 0; }
  return r; }
''' % dict(V=V, E=E, eq=ops['eq'])
    if ops.get('lt'):
        f += '''_Bool %(V)s_lt(struct %(V)s *x, struct %(V)s *y) {
  for (unsigned long k = 0; k < x->size && k < y->size; k++) { %(E)s *a = &x->data[k]; %(E)s *b = &y->data[k]; if (%(lt)s) return 1; { %(E)s *t = a; a = b; b = t; } if (%(lt)s) return 0; }
  return x->size < y->size; }
''' % dict(V=V, E=E, lt=ops['lt'])
    return s, _protos_of(f), f

def gen_set(em, e):
    en = em.elemname(e); E = em.ctype(e); S = 'set_' + en
    ops = elem_ops(em, e)
    if not ops.get('lt'): raise Cxx2cError('vstd: std::set element without operator<: ' + e.key())
    inline = bool(em.cfg.get('vstd_inline'))
    s = ('''#ifndef VSTD_CAP_%(S)s
#define VSTD_CAP_%(S)s VSTD_CAP_DEFAULT
#endif
struct %(S)s { %(E)s data[VSTD_CAP_%(S)s]; unsigned long size; unsigned long cap; };''' if inline else '''struct %(S)s { %(E)s *data; unsigned long size; unsigned long cap; };''') % dict(S=S, E=E, en=en) + '''
struct sit_%(en)s { struct %(S)s *s; unsigned long i; };
struct sii_%(en)s { struct %(S)s *s; };
struct rsit_%(en)s { struct %(S)s *s; unsigned long i; };
struct %(S)s_insert_result { struct sit_%(en)s first; _Bool second; };''' % dict(S=S, E=E, en=en)
    f = '''
#ifndef VSTD_CAP_%(S)s
#define VSTD_CAP_%(S)s VSTD_CAP_DEFAULT
#endif
%(INIT)s
unsigned long %(S)s_size(struct %(S)s *v) { return v->size; }
_Bool %(S)s_empty(struct %(S)s *v) { return v->size == 0; }
void %(S)s_clear(struct %(S)s *v) { v->size = 0; }
struct sit_%(en)s %(S)s_begin(struct %(S)s *v) { struct sit_%(en)s it; it.s = v; it.i = 0; return it; }
struct sit_%(en)s %(S)s_end(struct %(S)s *v) { struct sit_%(en)s it; it.s = v; it.i = v->size; return it; }
struct sit_%(en)s *sit_%(en)s_inc(struct sit_%(en)s *it) { it->i++; return it; }
struct sit_%(en)s *sit_%(en)s_dec(struct sit_%(en)s *it) { it->i--; return it; }
struct sit_%(en)s sit_%(en)s_postinc(struct sit_%(en)s *it) { struct sit_%(en)s o = *it; it->i++; return o; }
%(E)s *sit_%(en)s_deref(struct sit_%(en)s it) { __CPROVER_assert(it.i < it.s->size, "vstd-bounds: set iterator dereference in range"); return &it.s->data[it.i]; }
_Bool sit_%(en)s_eq(struct sit_%(en)s a, struct sit_%(en)s b) { return a.i == b.i; }
_Bool sit_%(en)s_ne(struct sit_%(en)s a, struct sit_%(en)s b) { return a.i != b.i; }
struct rsit_%(en)s %(S)s_rbegin(struct %(S)s *v) { struct rsit_%(en)s it; it.s = v; it.i = v->size; return it; }
struct rsit_%(en)s %(S)s_rend(struct %(S)s *v) { struct rsit_%(en)s it; it.s = v; it.i = 0; return it; }
struct rsit_%(en)s *rsit_%(en)s_inc(struct rsit_%(en)s *it) { it->i--; return it; }
struct rsit_%(en)s *rsit_%(en)s_dec(struct rsit_%(en)s *it) { it->i++; return it; }
struct rsit_%(en)s rsit_%(en)s_postinc(struct rsit_%(en)s *it) { struct rsit_%(en)s o = *it; it->i--; return o; }
%(E)s *rsit_%(en)s_deref(struct rsit_%(en)s it) { __CPROVER_assert(it.i >= 1 && it.i <= it.s->size, "vstd-bounds: reverse set iterator dereference in range"); return &it.s->data[it.i - 1]; }
_Bool rsit_%(en)s_eq(struct rsit_%(en)s a, struct rsit_%(en)s b) { return a.i == b.i; }
_Bool rsit_%(en)s_ne(struct rsit_%(en)s a, struct rsit_%(en)s b) { return a.i != b.i; }
/* position of the first element not less than x */
unsigned long %(S)s_lower(struct %(S)s *v, %(E)s *b) {
  unsigned long p = 0;
  for (unsigned long k = 0; k < v->size; k++) { %(E)s *a = &v->data[k]; if (%(lt)s) p = k + 1; }
  return p; }
struct %(S)s_insert_result %(S)s_insert(struct %(S)s *v, %(E)s x) {
  struct %(S)s_insert_result r; unsigned long p = %(S)s_lower(v, &x);
  r.first.s = v; r.first.i = p; r.second = 0;
  if (p < v->size) { %(E)s *a = &x; %(E)s *b = &v->data[p]; if (!(%(lt)s)) return r; }
  __CPROVER_assert(v->size < v->cap, "vstd-capacity: set insert within modelled capacity");
  for (unsigned long k = v->size; k > p; k--) { v->data[k] = v->data[k - 1]; }
  v->data[p] = x; v->size++; r.second = 1; return r; }
void %(S)s_insert_v(struct %(S)s *v, %(E)s x) { %(S)s_insert(v, x); }
struct sit_%(en)s %(S)s_find(struct %(S)s *v, %(E)s x) {
  struct sit_%(en)s it; it.s = v; unsigned long p = %(S)s_lower(v, &x); it.i = v->size;
  if (p < v->size) { %(E)s *a = &x; %(E)s *b = &v->data[p]; if (!(%(lt)s)) it.i = p; }
  return it; }
unsigned long %(S)s_count(struct %(S)s *v, %(E)s x) { return %(S)s_find(v, x).i < v->size ? 1UL : 0UL; }
struct sit_%(en)s %(S)s_erase(struct %(S)s *v, struct sit_%(en)s it) {
  __CPROVER_assert(it.i < v->size, "vstd-bounds: set erase position in range");
  for (unsigned long k = it.i; k + 1 < v->size; k++) { v->data[k] = v->data[k + 1]; }
  v->size--; return it; }
unsigned long %(S)s_erase_key(struct %(S)s *v, %(E)s x) {
  struct sit_%(en)s it = %(S)s_find(v, x); if (it.i < v->size) { %(S)s_erase(v, it); return 1; } return 0; }
%(COPY)s
struct %(S)s %(S)s_move(struct %(S)s *src) { struct %(S)s r = *src; %(S)s_init(src); return r; }
struct %(S)s *%(S)s_assign(struct %(S)s *v, struct %(S)s x) { *v = x; return v; }
void %(S)s_swap(struct %(S)s *a, struct %(S)s *b) { struct %(S)s t = *a; *a = *b; *b = t; }
void %(S)s_insert_range_sit(struct %(S)s *v, struct sit_%(en)s a, struct sit_%(en)s b) {
  for (unsigned long k = a.i; k < b.i; k++) { %(S)s_insert(v, a.s->data[k]); } }
''' % dict(S=S, E=E, en=en, lt=ops['lt'],
           INIT=('void %(S)s_init(struct %(S)s *v) { v->size = 0; v->cap = VSTD_CAP_%(S)s; }' if inline else 'void %(S)s_init(struct %(S)s *v) { v->data = (%(E)s *)malloc(sizeof(%(E)s) * VSTD_CAP_%(S)s); v->size = 0; v->cap = VSTD_CAP_%(S)s; }') % dict(S=S, E=E),
           COPY=('struct %(S)s %(S)s_copy(struct %(S)s *src) { return *src; }' if inline else '''struct %(S)s %(S)s_copy(struct %(S)s *src) {
  struct %(S)s r; r.cap = src->cap > VSTD_CAP_%(S)s ? src->cap : VSTD_CAP_%(S)s; r.data = (%(E)s *)malloc(sizeof(%(E)s) * r.cap); r.size = src->size;
  for (unsigned long k = 0; k < src->size; k++) { r.data[k] = src->data[k]; }
  return r; }''') % dict(S=S, E=E))
    if ('vec_' + en) in em.vstd_req:
        f += '''void %(S)s_insert_range_vit(struct %(S)s *v, struct vit_%(en)s a, struct vit_%(en)s b) {
  __CPROVER_assert(a.i <= b.i && b.i <= a.v->size, "vstd-bounds: source range in range");
  for (unsigned long k = a.i; k < b.i; k++) { %(S)s_insert(v, a.v->data[k]); } }
void vec_%(en)s_insert_range_sit(struct vec_%(en)s *v, struct sit_%(en)s a, struct sit_%(en)s b) {
  for (unsigned long k = a.i; k < b.i; k++) { vec_%(en)s_push_back(v, a.s->data[k]); } }
''' % dict(S=S, E=E, en=en)
    if ops.get('eq'):
        f += '''_Bool %(S)s_eq(struct %(S)s *x, struct %(S)s *y) {
  if (x->size != y->size) return 0;
  _Bool r = 1;
  for (unsigned long k = 0; k < x->size; k++) { %(E)s *a = &x->data[k]; %(E)s *b = &y->data[k]; if (!(%(eq)s)) r = 0; }
  return r; }
''' % dict(S=S, E=E, eq=ops['eq'])
    return s, _protos_of(f), f

def gen_pair(em, name, info):
    a, b = info
    A = em.ctype(a); B = em.ctype(b)
    s = 'struct %s { %s first; %s second; };' % (name, A, B)
    oa = elem_ops(em, a); ob = elem_ops(em, b)
    f = 'struct %s %s_copy(struct %s *src) { struct %s r; r.first = %s; r.second = %s; return r; }\n' % (
        name, name, name, name, em.copy_expr(a, 'src->first'), em.copy_expr(b, 'src->second'))
    if oa.get('eq') and ob.get('eq'):
        f += '''_Bool %(n)s_eq(struct %(n)s *x, struct %(n)s *y) { _Bool r; { %(A)s *a = &x->first; %(A)s *b = &y->first; r = %(eqa)s; } { %(B)s *a = &x->second; %(B)s *b = &y->second; r = r && %(eqb)s; } return r; }
_Bool %(n)s_ne(struct %(n)s *x, struct %(n)s *y) { return !%(n)s_eq(x, y); }
''' % dict(n=name, A=A, B=B, eqa=oa['eq'], eqb=ob['eq'])
    if oa.get('lt') and ob.get('lt'):
        f += '''_Bool %(n)s_lt(struct %(n)s *x, struct %(n)s *y) {
  { %(A)s *a = &x->first; %(A)s *b = &y->first; if (%(lta)s) return 1; { %(A)s *t = a; a = b; b = t; } if (%(lta)s) return 0; }
  { %(B)s *a = &x->second; %(B)s *b = &y->second; return %(ltb)s; } }
''' % dict(n=name, A=A, B=B, lta=oa['lt'], ltb=ob['lt'])
    return s, _protos_of(f), f

def gen_arr(em, name, info):
    e, n = info
    E = em.ctype(e); en = em.elemname(e)
    ops = elem_ops(em, e)
    s = 'struct %s { %s d[%d]; };\nstruct ait_%s { %s *p; };' % (name, E, n, name, E)
    f = '''%(E)s *%(n)s_at(struct %(n)s *a, unsigned long i) { __CPROVER_assert(i < %(N)d, "vstd-bounds: array index in range"); return &a->d[i]; }
%(E)s *%(n)s_front(struct %(n)s *a) { return &a->d[0]; }
%(E)s *%(n)s_back(struct %(n)s *a) { return &a->d[%(N)d - 1]; }
%(E)s *%(n)s_data(struct %(n)s *a) { return &a->d[0]; }
%(E)s *%(n)s_begin(struct %(n)s *a) { return &a->d[0]; }
%(E)s *%(n)s_end(struct %(n)s *a) { return &a->d[0] + %(N)d; }
void %(n)s_init(struct %(n)s *v) { for (unsigned long k = 0; k < %(N)d; k++) { %(init)s } }
struct %(n)s %(n)s_copy(struct %(n)s *src) { struct %(n)s r; for (unsigned long k = 0; k < %(N)d; k++) { r.d[k] = %(cp)s; } return r; }
void %(n)s_fill(struct %(n)s *a, %(E)s x) { for (unsigned long k = 0; k < %(N)d; k++) { a->d[k] = x; } }
''' % dict(E=E, n=name, N=n, init=ops['init']('v->d[k]'), cp=em.copy_expr(e, 'src->d[k]'))
    if ops.get('eq'):
        f += '''_Bool %(n)s_eq(struct %(n)s *x, struct %(n)s *y) { _Bool r = 1; for (unsigned long k = 0; k < %(N)d; k++) { %(E)s *a = &x->d[k]; %(E)s *b = &y->d[k]; if (!(%(eq)s)) r = 0; } return r; }
''' % dict(E=E, n=name, N=n, eq=ops['eq'])
    return s, _protos_of(f), f

def gen_alg(em, info):
    name, kind, e = info
    en = em.elemname(e); E = em.ctype(e)
    ops = elem_ops(em, e)
    if name == 'copy':
        ik, ok = kind
        IT = 'struct %s_%s' % (ik, en); OT = 'struct %s_%s' % (ok, en)
        if ok == 'bii':
            body = 'for (unsigned long k = a.i; k %s b.i; k%s) { vec_%s_push_back(o.v, %s); } return o;' % (
                '<' if ik in ('vit', 'sit') else '>', '++' if ik in ('vit', 'sit') else '--', en,
                em.copy_expr(e, 'a.%s->data[k%s]' % ('s' if ik == 'sit' else 'v', '' if ik in ('vit', 'sit') else ' - 1')))
        elif ok == 'vit' and ik == 'vit':
            body = 'for (unsigned long k = a.i; k < b.i; k++) { __CPROVER_assert(o.i < o.v->size, "vstd-bounds: copy destination in range"); o.v->data[o.i] = %s; o.i++; } return o;' % em.copy_expr(e, 'a.v->data[k]')
        else: raise Cxx2cError('vstd: std::copy %s -> %s' % (ik, ok))
        f = '%s vstd_copy_%s_%s_%s(%s a, %s b, %s o) { %s }\n' % (OT, ik, ok, en, IT, IT, OT, body)
        return '', _protos_of(f), f
    IT = 'struct %s_%s' % (kind, en)
    C = 'v' if kind in ('vit', 'rvit') else 's'
    if kind not in ('vit', 'sit'):
        raise Cxx2cError('vstd: algorithm %s over %s iterators not modelled' % (name, kind))
    d = dict(IT=IT, E=E, en=en, k=kind, C=C, eq=ops.get('eq'), lt=ops.get('lt'))
    if name == 'find':
        f = '''%(IT)s vstd_find_%(k)s_%(en)s(%(IT)s f, %(IT)s l, %(E)s x) {
  %(E)s *b = &x; %(IT)s r = l; _Bool found = 0;
  __CPROVER_assert(f.i <= l.i && l.i <= f.%(C)s->size, "vstd-bounds: find range in range");
  for (unsigned long k = f.i; k < l.i; k++) { %(E)s *a = &f.%(C)s->data[k]; if (!found && (%(eq)s)) { found = 1; r.i = k; } }
  return r; }
''' % d
    elif name == 'count':
        f = '''long vstd_count_%(k)s_%(en)s(%(IT)s f, %(IT)s l, %(E)s x) {
  %(E)s *b = &x; long r = 0;
  __CPROVER_assert(f.i <= l.i && l.i <= f.%(C)s->size, "vstd-bounds: count range in range");
  for (unsigned long k = f.i; k < l.i; k++) { %(E)s *a = &f.%(C)s->data[k]; if (%(eq)s) r++; }
  return r; }
''' % d
    elif name == 'remove':
        f = '''%(IT)s vstd_remove_%(k)s_%(en)s(%(IT)s f, %(IT)s l, %(E)s x) {
  %(E)s *b = &x; unsigned long w = f.i;
  __CPROVER_assert(f.i <= l.i && l.i <= f.%(C)s->size, "vstd-bounds: remove range in range");
  for (unsigned long k = f.i; k < l.i; k++) { %(E)s *a = &f.%(C)s->data[k]; if (!(%(eq)s)) { f.%(C)s->data[w] = f.%(C)s->data[k]; w++; } }
  f.i = w; return f; }
''' % d
    elif name == 'sort':
        f = '''void vstd_sort_%(k)s_%(en)s(%(IT)s f, %(IT)s l) {
  __CPROVER_assert(f.i <= l.i && l.i <= f.%(C)s->size, "vstd-bounds: sort range in range");
  for (unsigned long i = f.i + 1; i < l.i; i++) {
    %(E)s x = f.%(C)s->data[i]; unsigned long j = i; _Bool go = 1;
    for (unsigned long s = i; s > f.i; s--) { %(E)s *a = &x; %(E)s *b = &f.%(C)s->data[s - 1]; if (go && (%(lt)s)) { f.%(C)s->data[s] = f.%(C)s->data[s - 1]; j = s - 1; } else { go = 0; } }
    f.%(C)s->data[j] = x; } }
''' % d
    elif name == 'unique':
        f = '''%(IT)s vstd_unique_%(k)s_%(en)s(%(IT)s f, %(IT)s l) {
  __CPROVER_assert(f.i <= l.i && l.i <= f.%(C)s->size, "vstd-bounds: unique range in range");
  if (f.i == l.i) return l;
  unsigned long w = f.i;
  for (unsigned long k = f.i + 1; k < l.i; k++) { %(E)s *a = &f.%(C)s->data[w]; %(E)s *b = &f.%(C)s->data[k]; if (!(%(eq)s)) { w++; f.%(C)s->data[w] = f.%(C)s->data[k]; } }
  f.i = w + 1; return f; }
''' % d
    elif name == 'adjacent_find':
        f = '''%(IT)s vstd_adjacent_find_%(k)s_%(en)s(%(IT)s f, %(IT)s l) {
  __CPROVER_assert(f.i <= l.i && l.i <= f.%(C)s->size, "vstd-bounds: adjacent_find range in range");
  %(IT)s r = l; _Bool found = 0;
  for (unsigned long k = f.i; k + 1 < l.i; k++) { %(E)s *a = &f.%(C)s->data[k]; %(E)s *b = &f.%(C)s->data[k + 1]; if (!found && (%(eq)s)) { found = 1; r.i = k; } }
  return r; }
''' % d
    elif name == 'rotate':
        f = '''%(IT)s vstd_rotate_%(k)s_%(en)s(%(IT)s f, %(IT)s mid, %(IT)s l) {
  __CPROVER_assert(f.i <= mid.i && mid.i <= l.i && l.i <= f.%(C)s->size, "vstd-bounds: rotate range in range");
  unsigned long n = l.i - f.i, s = mid.i - f.i;
  if (n > 0 && s > 0 && s < n) {
    /* left rotation by s positions: three reversals */
    for (unsigned long k = 0; k < s / 2; k++) { %(E)s t = f.%(C)s->data[f.i + k]; f.%(C)s->data[f.i + k] = f.%(C)s->data[f.i + s - 1 - k]; f.%(C)s->data[f.i + s - 1 - k] = t; }
    for (unsigned long k = 0; k < (n - s) / 2; k++) { %(E)s t = f.%(C)s->data[mid.i + k]; f.%(C)s->data[mid.i + k] = f.%(C)s->data[l.i - 1 - k]; f.%(C)s->data[l.i - 1 - k] = t; }
    for (unsigned long k = 0; k < n / 2; k++) { %(E)s t = f.%(C)s->data[f.i + k]; f.%(C)s->data[f.i + k] = f.%(C)s->data[l.i - 1 - k]; f.%(C)s->data[l.i - 1 - k] = t; }
  }
  %(IT)s r = f; r.i = f.i + (n - s); return r; }
''' % d
    elif name == 'reverse':
        f = '''void vstd_reverse_%(k)s_%(en)s(%(IT)s f, %(IT)s l) {
  __CPROVER_assert(f.i <= l.i && l.i <= f.%(C)s->size, "vstd-bounds: reverse range in range");
  unsigned long n = l.i - f.i;
  for (unsigned long k = 0; k < n / 2; k++) { %(E)s t = f.%(C)s->data[f.i + k]; f.%(C)s->data[f.i + k] = f.%(C)s->data[l.i - 1 - k]; f.%(C)s->data[l.i - 1 - k] = t; } }
''' % d
    elif name == 'accumulate':
        f = '''%(E)s vstd_accumulate_%(k)s_%(en)s(%(IT)s f, %(IT)s l, %(E)s init) {
  __CPROVER_assert(f.i <= l.i && l.i <= f.%(C)s->size, "vstd-bounds: accumulate range in range");
  for (unsigned long k = f.i; k < l.i; k++) { init = init + f.%(C)s->data[k]; }
  return init; }
''' % d
    elif name in ('max_element', 'min_element'):
        d['cmp'] = ops['lt'] if name == 'max_element' else ops['lt'].replace('a,', 'TMP,').replace('b)', 'a)').replace('TMP,', 'b,') if False else ops['lt']
        if name == 'max_element':
            f = '''%(IT)s vstd_max_element_%(k)s_%(en)s(%(IT)s f, %(IT)s l) {
  %(IT)s r = f;
  for (unsigned long k = f.i + 1; k < l.i; k++) { %(E)s *a = &f.%(C)s->data[r.i]; %(E)s *b = &f.%(C)s->data[k]; if (%(lt)s) r.i = k; }
  return r; }
''' % d
        else:
            f = '''%(IT)s vstd_min_element_%(k)s_%(en)s(%(IT)s f, %(IT)s l) {
  %(IT)s r = f;
  for (unsigned long k = f.i + 1; k < l.i; k++) { %(E)s *b = &f.%(C)s->data[r.i]; %(E)s *a = &f.%(C)s->data[k]; if (%(lt)s) r.i = k; }
  return r; }
''' % d
    else:
        raise Cxx2cError('vstd: algorithm %s not modelled' % name)
    return '', _protos_of(f), f

def gen_algp(em, info):
    name, kind, e, cn, byref, PT = info
    en = em.elemname(e); E = em.ctype(e)
    IT = 'struct vit_%s' % en
    def arg(i, x): return ('&' + x) if byref[i] else x
    d = dict(IT=IT, E=E, en=en, cn=cn, PT=PT)
    if name == 'unique':
        d['call'] = '%s(&p, %s, %s)' % (cn, arg(0, 'f.v->data[w]'), arg(1, 'f.v->data[k]'))
        f = '''%(IT)s vstd_unique_p_%(en)s_%(cn)s(%(IT)s f, %(IT)s l, %(PT)s p) {
  __CPROVER_assert(f.i <= l.i && l.i <= f.v->size, "vstd-bounds: unique range in range");
  if (f.i == l.i) return l;
  unsigned long w = f.i;
  for (unsigned long k = f.i + 1; k < l.i; k++) { if (!(%(call)s)) { w++; f.v->data[w] = f.v->data[k]; } }
  f.i = w + 1; return f; }
''' % d
    elif name == 'sort':
        d['call'] = '%s(&p, %s, %s)' % (cn, arg(0, 'x'), arg(1, 'f.v->data[s - 1]'))
        f = '''void vstd_sort_p_%(en)s_%(cn)s(%(IT)s f, %(IT)s l, %(PT)s p) {
  __CPROVER_assert(f.i <= l.i && l.i <= f.v->size, "vstd-bounds: sort range in range");
  for (unsigned long i = f.i + 1; i < l.i; i++) {
    %(E)s x = f.v->data[i]; unsigned long j = i; _Bool go = 1;
    for (unsigned long s = i; s > f.i; s--) { if (go && (%(call)s)) { f.v->data[s] = f.v->data[s - 1]; j = s - 1; } else { go = 0; } }
    f.v->data[j] = x; } }
''' % d
    elif name == 'find_if':
        d['call'] = '%s(&p, %s)' % (cn, arg(0, 'f.v->data[k]'))
        f = '''%(IT)s vstd_find_if_p_%(en)s_%(cn)s(%(IT)s f, %(IT)s l, %(PT)s p) {
  %(IT)s r = l; _Bool found = 0;
  __CPROVER_assert(f.i <= l.i && l.i <= f.v->size, "vstd-bounds: find_if range in range");
  for (unsigned long k = f.i; k < l.i; k++) { if (!found && (%(call)s)) { found = 1; r.i = k; } }
  return r; }
''' % d
    elif name == 'remove_if':
        d['call'] = '%s(&p, %s)' % (cn, arg(0, 'f.v->data[k]'))
        f = '''%(IT)s vstd_remove_if_p_%(en)s_%(cn)s(%(IT)s f, %(IT)s l, %(PT)s p) {
  unsigned long w = f.i;
  __CPROVER_assert(f.i <= l.i && l.i <= f.v->size, "vstd-bounds: remove_if range in range");
  for (unsigned long k = f.i; k < l.i; k++) { if (!(%(call)s)) { f.v->data[w] = f.v->data[k]; w++; } }
  f.i = w; return f; }
''' % d
    else:
        raise Cxx2cError('vstd: algorithm %s with predicate not modelled' % name)
    return '', _protos_of(f), f

def gen_transform(em, key, info):
    ii, oi, cn, byref, rt = info
    ik, ie = ii; ok, oe = oi
    ien = em.elemname(ie); oen = em.elemname(oe)
    IT = 'struct %s_%s' % (ik, ien); OT = 'struct %s_%s' % (ok, oen)
    if ik == 'vit': loop = 'for (unsigned long k = a.i; k < b.i; k++)'; src = 'a.v->data[k]'
    elif ik == 'rvit': loop = 'for (unsigned long k = a.i; k > b.i; k--)'; src = 'a.v->data[k - 1]'
    elif ik == 'sit': loop = 'for (unsigned long k = a.i; k < b.i; k++)'; src = 'a.s->data[k]'
    else: raise Cxx2cError('vstd: transform over ' + ik)
    arg = '&' + src if byref else src
    if ok == 'bii':
        st = 'vec_%s_push_back(o.v, %s(%s));' % (oen, cn, arg)
    elif ok == 'vit':
        st = '__CPROVER_assert(o.i < o.v->size, "vstd-bounds: transform destination in range"); o.v->data[o.i] = %s(%s); o.i++;' % (cn, arg)
    else: raise Cxx2cError('vstd: transform into ' + ok)
    chk = '__CPROVER_assert(%s, "vstd-bounds: transform source range in range");' % ('a.i <= b.i && b.i <= a.v->size' if ik == 'vit' else ('b.i <= a.i && a.i <= a.v->size' if ik == 'rvit' else 'a.i <= b.i && b.i <= a.s->size'))
    f = '%s vstd_transform_%s_%s_%s(%s a, %s b, %s o) { %s %s { %s } return o; }\n' % (OT, ik, ok, cn, IT, IT, OT, chk, loop, st)
    return '', _protos_of(f), f

VSTD_PRELUDE = '''/* vstd prelude: model of the libstdc++ pieces used by the extracted code (trusted, DESIGN 3.2) */
#include <stdlib.h>
#include <string.h>
#ifndef VSTD_CAP_DEFAULT
#define VSTD_CAP_DEFAULT 4
#endif
#ifndef VSTD_MAX_SIZE
#define VSTD_MAX_SIZE 0x7fffffffUL
#endif
typedef struct ovm_string_s { char *data; unsigned long size; } ovm_string;   /* contents are modelled only where bytes are copied into them */
typedef struct ovm_exception_s { char unused; } ovm_exception;
typedef struct ovm_stream_s { unsigned long pos; unsigned long len; _Bool failed; } ovm_stream;   /* byte-count model of std::istream/ostream */
int ovm_exc = 0;   /* 0: none, 1: thrown by extracted code, 2: length_error/bad_alloc from vstd */
static inline ovm_string ovm_string_empty(void) { ovm_string s; s.data = 0; s.size = 0; return s; }
#define OVM_STR(k) (ovm_string_empty())
static inline unsigned long ovm_string_size(ovm_string *s) { return s->size; }
static inline void ovm_string_resize(ovm_string *s, unsigned long n) { if (n > VSTD_MAX_SIZE) { ovm_exc = 2; return; } s->data = (char *)malloc(n ? n : 1); s->size = n; }
_Bool nondet_bool(void);
static inline _Bool ovm_string_nondet_eq(void) { return nondet_bool(); }
static inline ovm_stream *ovm_stream_op(ovm_stream *s) { return s; }
/* reading n bytes: a failed or short read leaves the buffer contents arbitrary (they already are: malloc'd) and sets failed */
static inline void ovm_stream_read(ovm_stream *s, char *buf, long n) { if (s->failed || (unsigned long)n > s->len - s->pos) { s->failed = 1; } else { s->pos += (unsigned long)n; if (nondet_bool()) s->failed = 1; } }
static inline void ovm_stream_write(ovm_stream *s, char *buf, long n) { if (nondet_bool()) s->failed = 1; else s->pos += (unsigned long)n; }
static inline _Bool ovm_stream_good(ovm_stream *s) { return !s->failed; }
static inline _Bool ovm_stream_fail(ovm_stream *s) { return s->failed; }
static inline _Bool ovm_stream_bad(ovm_stream *s) { return s->failed; }
static inline _Bool ovm_stream_eof(ovm_stream *s) { return s->pos >= s->len; }
static inline long ovm_stream_tell(ovm_stream *s) { return (long)s->pos; }
static inline void ovm_stream_seek(ovm_stream *s, long off, int whence) { s->pos = whence == 2 ? s->len : (unsigned long)off; }
static inline void vstd_copy_ptr(unsigned char *f, unsigned char *l, unsigned char *o, unsigned long esz) { unsigned long n = (unsigned long)(l - f); for (unsigned long k = 0; k < n; k++) o[k] = f[k]; }
'''
