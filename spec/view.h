/* Component-wise comparison of two kernel states, optionally under a renaming of one entity kind.
 * A renaming is given as a function pointer-free triple (kind, a, b, mode):
 *   mode 0: identity; mode 1: transposition (a b); mode 2: shift-down above a (delete, immediate);
 * half-entity rule: rho_half(2i+s) = 2 rho(i) + s.  Used by C17 (swap), C02 (delete cores), C03 (ghost props). */
#define RHO_ID 0
#define RHO_SWAP 1
#define RHO_SHIFT 2
#define RHO_SWAPLAST 3   /* fast deletion: entity b (the last) takes the index a of the removed one */
struct rho { int mode; int a; int b; };
static inline int rho_ap(struct rho r, int i) {
  if (i < 0) return i;
  if (r.mode == RHO_SWAP) return i == r.a ? r.b : (i == r.b ? r.a : i);
  if (r.mode == RHO_SHIFT) return i > r.a ? i - 1 : i;       /* i == a is the removed entity: callers exclude it */
  if (r.mode == RHO_SWAPLAST) return i == r.b ? r.a : i;
  return i;
}
static inline int rho_half(struct rho r, int h) { return h < 0 ? h : 2 * rho_ap(r, h >> 1) + (h & 1); }
static const struct rho RHO_NONE = {0, 0, 0};

/* scalar / flag components */
static inline _Bool same_modes(const TK *o, const TK *n) {
  return o->v_bottom_up_ == n->v_bottom_up_ && o->e_bottom_up_ == n->e_bottom_up_ && o->f_bottom_up_ == n->f_bottom_up_ &&
         o->deferred_deletion_ == n->deferred_deletion_ && o->fast_deletion_ == n->fast_deletion_;
}
static inline _Bool same_counters(const TK *o, const TK *n) {
  return o->n_deleted_vertices_ == n->n_deleted_vertices_ && o->n_deleted_edges_ == n->n_deleted_edges_ &&
         o->n_deleted_faces_ == n->n_deleted_faces_ && o->n_deleted_cells_ == n->n_deleted_cells_;
}

/* bool / int arrays under an index renaming: n[rho(i)] == o[i] for every i except `skip` */
static inline _Bool map_bools(const struct vec_bool *o, const struct vec_bool *n, struct rho r, int skip, unsigned long L, unsigned long dsize) {
  _Bool ok = n->size + dsize == o->size;
  for (unsigned long i = 0; i < L; i++) if (i < o->size && (int)i != skip) {
    int j = rho_ap(r, (int)i);
    ok &= j >= 0 && (unsigned long)j < n->size && n->data[j] == o->data[i];
  }
  return ok;
}
static inline _Bool map_ints(const struct vec_int *o, const struct vec_int *n, struct rho r, _Bool half, int skip, unsigned long L, unsigned long dsize) {
  _Bool ok = n->size + dsize == o->size;
  for (unsigned long i = 0; i < L; i++) if (i < o->size && (half ? ((int)i >> 1) : (int)i) != skip) {
    int j = half ? rho_half(r, (int)i) : rho_ap(r, (int)i);
    ok &= j >= 0 && (unsigned long)j < n->size && n->data[j] == o->data[i];
  }
  return ok;
}

/* edges: n.edges[re(e)] == (rv(from), rv(to)) for every e (only live edges when live_only), except skip */
static inline _Bool map_edges(const TK *o, const TK *n, struct rho re, struct rho rv, _Bool live_only, int skip, unsigned long dsize) {
  _Bool ok = n->edges_.size + dsize == o->edges_.size;
  for (unsigned long e = 0; e < LE; e++) if (e < o->edges_.size && (int)e != skip && !(live_only && EDEL(o, e))) {
    int j = rho_ap(re, (int)e);
    ok &= j >= 0 && (unsigned long)j < n->edges_.size && EFROM(n, j) == rho_ap(rv, EFROM(o, e)) && ETO(n, j) == rho_ap(rv, ETO(o, e));
  }
  return ok;
}
/* faces: n.faces[rf(f)] lists rhe_half(halfedges of f) in the same order */
static inline _Bool map_faces(const TK *o, const TK *n, struct rho rf, struct rho rhe, _Bool live_only, int skip, unsigned long dsize) {
  _Bool ok = n->faces_.size + dsize == o->faces_.size;
  for (unsigned long f = 0; f < LF; f++) if (f < o->faces_.size && (int)f != skip && !(live_only && FDEL(o, f))) {
    int j = rho_ap(rf, (int)f);
    _Bool in = j >= 0 && (unsigned long)j < n->faces_.size;
    ok &= in;
    if (in) {
      ok &= FVAL(n, j) == FVAL(o, f);
      for (unsigned long k = 0; k < LFV; k++) if (k < FVAL(o, f) && k < FVAL(n, j)) ok &= FHE(n, j, k) == rho_half(rhe, FHE(o, f, k));
    }
  }
  return ok;
}
static inline _Bool map_cells(const TK *o, const TK *n, struct rho rc, struct rho rf, _Bool live_only, int skip, unsigned long dsize) {
  _Bool ok = n->cells_.size + dsize == o->cells_.size;
  for (unsigned long c = 0; c < LC; c++) if (c < o->cells_.size && (int)c != skip && !(live_only && CDEL(o, c))) {
    int j = rho_ap(rc, (int)c);
    _Bool in = j >= 0 && (unsigned long)j < n->cells_.size;
    ok &= in;
    if (in) {
      ok &= CVAL(n, j) == CVAL(o, c);
      for (unsigned long k = 0; k < LCV; k++) if (k < CVAL(o, c) && k < CVAL(n, j)) ok &= CHF(n, j, k) == rho_half(rf, CHF(o, c, k));
    }
  }
  return ok;
}
/* vertex cache: n.out[rv(v)] lists rhe_half(entries of out[v]) in the same order */
static inline _Bool map_vcache(const TK *o, const TK *n, struct rho rv, struct rho re, int skip, unsigned long dsize) {
  if (!o->v_bottom_up_) return n->outgoing_hes_per_vertex_.size == 0;
  _Bool ok = n->outgoing_hes_per_vertex_.size + dsize == o->outgoing_hes_per_vertex_.size;
  for (unsigned long v = 0; v < LV; v++) if (v < o->outgoing_hes_per_vertex_.size && (int)v != skip) {
    int j = rho_ap(rv, (int)v);
    _Bool in = j >= 0 && (unsigned long)j < n->outgoing_hes_per_vertex_.size;
    ok &= in;
    if (in) {
      ok &= OUTN(n, j) == OUTN(o, v);
      for (unsigned long k = 0; k < LOUT; k++) if (k < OUTN(o, v) && k < OUTN(n, j)) ok &= OUT(n, j, k) == rho_half(re, OUT(o, v, k));
    }
  }
  return ok;
}
/* edge cache: n.inc[re_half(he)] lists rf_half(entries of inc[he]) in the same order */
static inline _Bool map_ecache(const TK *o, const TK *n, struct rho re, struct rho rf, int skip_e, unsigned long dsize) {
  if (!o->e_bottom_up_) return n->incident_hfs_per_he_.size == 0;
  _Bool ok = n->incident_hfs_per_he_.size + dsize == o->incident_hfs_per_he_.size;
  for (unsigned long h = 0; h < 2 * LE; h++) if (h < o->incident_hfs_per_he_.size && ((int)h >> 1) != skip_e) {
    int j = rho_half(re, (int)h);
    _Bool in = j >= 0 && (unsigned long)j < n->incident_hfs_per_he_.size;
    ok &= in;
    if (in) {
      ok &= INCN(n, j) == INCN(o, h);
      for (unsigned long k = 0; k < LINC; k++) if (k < INCN(o, h) && k < INCN(n, j)) ok &= INC(n, j, k) == rho_half(rf, INC(o, h, k));
    }
  }
  return ok;
}
/* face cache: n.icell[rf_half(hf)] == rc(icell[hf]) */
static inline _Bool map_fcache(const TK *o, const TK *n, struct rho rf, struct rho rc, int skip_f, unsigned long dsize) {
  if (!o->f_bottom_up_) return n->incident_cell_per_hf_.size == 0;
  _Bool ok = n->incident_cell_per_hf_.size + dsize == o->incident_cell_per_hf_.size;
  for (unsigned long h = 0; h < 2 * LF; h++) if (h < o->incident_cell_per_hf_.size && ((int)h >> 1) != skip_f) {
    int j = rho_half(rf, (int)h);
    ok &= j >= 0 && (unsigned long)j < n->incident_cell_per_hf_.size && ICELL(n, j) == rho_ap(rc, ICELL(o, h));
  }
  return ok;
}

/* whole-state equality (exact, including deleted entities' definitions and caches) */
static inline _Bool same_state(const TK *o, const TK *n) {
  return o->n_vertices_ == n->n_vertices_ && same_modes(o, n) && same_counters(o, n) &&
    map_edges(o, n, RHO_NONE, RHO_NONE, 0, -1, 0) && map_faces(o, n, RHO_NONE, RHO_NONE, 0, -1, 0) && map_cells(o, n, RHO_NONE, RHO_NONE, 0, -1, 0) &&
    map_bools(&o->vertex_deleted_, &n->vertex_deleted_, RHO_NONE, -1, LV, 0) && map_bools(&o->edge_deleted_, &n->edge_deleted_, RHO_NONE, -1, LE, 0) &&
    map_bools(&o->face_deleted_, &n->face_deleted_, RHO_NONE, -1, LF, 0) && map_bools(&o->cell_deleted_, &n->cell_deleted_, RHO_NONE, -1, LC, 0) &&
    map_vcache(o, n, RHO_NONE, RHO_NONE, -1, 0) && map_ecache(o, n, RHO_NONE, RHO_NONE, -1, 0) && map_fcache(o, n, RHO_NONE, RHO_NONE, -1, 0) &&
    map_ints(&o->ghost_v, &n->ghost_v, RHO_NONE, 0, -1, LV, 0) && map_ints(&o->ghost_e, &n->ghost_e, RHO_NONE, 0, -1, LE, 0) &&
    map_ints(&o->ghost_he, &n->ghost_he, RHO_NONE, 0, -1, 2 * LE, 0) && map_ints(&o->ghost_f, &n->ghost_f, RHO_NONE, 0, -1, LF, 0) &&
    map_ints(&o->ghost_hf, &n->ghost_hf, RHO_NONE, 0, -1, 2 * LF, 0) && map_ints(&o->ghost_c, &n->ghost_c, RHO_NONE, 0, -1, LC, 0);
}
