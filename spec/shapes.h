/* Constructive shapes (DESIGN 2.11): concrete meshes built THROUGH THE REAL (extracted) construction API, so the state
 * a query runs on is whatever the real add_vertex/add_face/add_cell produce. Numbering is fixed; queries' arguments are
 * symbolic over the whole handle ranges. */
static inline struct FH shape_face(TK *m, int n, int a, int b, int c, int d) {
  struct vec_VH vs; vec_VH_init(&vs);
  struct VH h; h.idx_ = a; vec_VH_push_back(&vs, h); h.idx_ = b; vec_VH_push_back(&vs, h);
  if (n >= 3) { h.idx_ = c; vec_VH_push_back(&vs, h); }
  if (n >= 4) { h.idx_ = d; vec_VH_push_back(&vs, h); }
  return TopologyKernel__add_face__std_vector_VH__r(m, &vs);
}
static inline struct CH shape_cell(TK *m, int n, const int *hfs, _Bool check) {
  struct vec_HFH l; vec_HFH_init(&l);
  for (int i = 0; i < 6; i++) if (i < n) { struct HFH h; h.idx_ = hfs[i]; vec_HFH_push_back(&l, h); }
  return TopologyKernel__add_cell(m, l, check);
}
static inline void shape_vertices(TK *m, int n) { for (int i = 0; i < 8; i++) if (i < n) TopologyKernel__add_vertex(m); }

#define SHAPE_TET 0          /* one tetrahedron: 4 v, 6 e, 4 triangles, 1 cell */
#define SHAPE_PRISM 1        /* triangular prism: 6 v, 9 e, 2 triangles + 3 quads, 1 cell */
#define SHAPE_TWOTETS 2      /* two tetrahedra glued on a triangle: 5 v, 9 e, 7 f, 2 cells */
#define SHAPE_QUADPILLOW 3   /* two quads on the same four edges bounding one cell: 4 v, 4 e, 2 f, 1 cell */
#define SHAPE_OPEN 4         /* two triangles sharing an edge, plus a free edge and an isolated vertex; no cell */
#define SHAPE_RING3 5        /* three tetrahedra closed around the edge (0,1): 5 v, 10 e, 9 f, 3 cells */
#define SHAPE_FAN3 6         /* three tetrahedra in an open fan around the edge (0,1): 6 v, 12 e, 10 f, 3 cells */
#define N_SHAPES 7
/* the halfface with vertices (p,q,r) in this cyclic order; the face is created when it does not exist yet */
static inline int shape_hf(TK *m, int p, int q, int r) {
  for (unsigned long f = 0; f < LF; f++) if (f < m->faces_.size && FVAL(m, f) == 3) for (int side = 0; side < 2; side++) {
    int hf = 2 * (int)f + side; int a = spec_hf_vertex(m, hf, 0), b = spec_hf_vertex(m, hf, 1), c = spec_hf_vertex(m, hf, 2);
    if ((a == p && b == q && c == r) || (a == q && b == r && c == p) || (a == r && b == p && c == q)) return hf;
  }
  return 2 * shape_face(m, 3, p, q, r, 0).idx_;
}
static inline void shape_tet(TK *m, int p, int q, int r, int s) {
  int h[6] = {shape_hf(m, p, q, r), shape_hf(m, p, r, s), shape_hf(m, p, s, q), shape_hf(m, q, s, r), 0, 0};
  shape_cell(m, 4, h, 1);
}
static inline void shape_build_(TK *m, int shape);
static inline void shape_build(TK *m, int shape) {
  static const int expect_cells[N_SHAPES] = {1, 1, 2, 1, 0, 3, 3};
  shape_build_(m, shape);
  if ((int)m->cells_.size != expect_cells[shape]) ovm_exc = 99;      /* a construction step was rejected: the prebuild reports it */
}
static inline void shape_build_(TK *m, int shape) {
  tk_init(m);
  if (shape == SHAPE_TET) {
    shape_vertices(m, 4);
    int f0 = shape_face(m, 3, 0, 1, 2, 0).idx_, f1 = shape_face(m, 3, 0, 2, 3, 0).idx_, f2 = shape_face(m, 3, 0, 3, 1, 0).idx_, f3 = shape_face(m, 3, 1, 3, 2, 0).idx_;
    int hfs[6] = {2 * f0 + 1, 2 * f1 + 1, 2 * f2 + 1, 2 * f3 + 1, 0, 0};
    shape_cell(m, 4, hfs, 1);
  } else if (shape == SHAPE_PRISM) {
    shape_vertices(m, 6);
    int b = shape_face(m, 3, 0, 1, 2, 0).idx_, t = shape_face(m, 3, 3, 5, 4, 0).idx_;
    int q0 = shape_face(m, 4, 0, 3, 4, 1).idx_, q1 = shape_face(m, 4, 1, 4, 5, 2).idx_, q2 = shape_face(m, 4, 2, 5, 3, 0).idx_;
    int hfs[6] = {2 * b + 1, 2 * t + 1, 2 * q0 + 1, 2 * q1 + 1, 2 * q2 + 1, 0};
    shape_cell(m, 5, hfs, 1);
  } else if (shape == SHAPE_TWOTETS) {
    shape_vertices(m, 5);
    int f0 = shape_face(m, 3, 0, 1, 2, 0).idx_, f1 = shape_face(m, 3, 0, 2, 3, 0).idx_, f2 = shape_face(m, 3, 0, 3, 1, 0).idx_, f3 = shape_face(m, 3, 1, 3, 2, 0).idx_;
    int a[6] = {2 * f0 + 1, 2 * f1 + 1, 2 * f2 + 1, 2 * f3 + 1, 0, 0};
    shape_cell(m, 4, a, 1);
    int g1 = shape_face(m, 3, 1, 2, 4, 0).idx_, g2 = shape_face(m, 3, 2, 3, 4, 0).idx_, g3 = shape_face(m, 3, 3, 1, 4, 0).idx_;
    int b2[6] = {2 * f3, 2 * g1, 2 * g2, 2 * g3, 0, 0};      /* the shared face from its other side; the new faces in their vertex order (consistent orientation) */
    shape_cell(m, 4, b2, 1);
  } else if (shape == SHAPE_QUADPILLOW) {
    shape_vertices(m, 4);
    int fa = shape_face(m, 4, 0, 1, 2, 3).idx_;
    /* second face on the opposite halfedges, as a distinct face */
    struct vec_HEH l; vec_HEH_init(&l);
    for (int k = 3; k >= 0; k--) { struct HEH h; h.idx_ = FHE(m, fa, k) ^ 1; vec_HEH_push_back(&l, h); }
    int fb = TopologyKernel__add_face__std_vector_HEH_bool(m, l, 1).idx_;
    int hfs[6] = {2 * fa, 2 * fb, 0, 0, 0, 0};
    shape_cell(m, 2, hfs, 1);
  } else if (shape == SHAPE_RING3) {
    shape_vertices(m, 5);
    shape_tet(m, 0, 1, 2, 3); shape_tet(m, 0, 1, 3, 4); shape_tet(m, 0, 1, 4, 2);
  } else if (shape == SHAPE_FAN3) {
    shape_vertices(m, 6);
    shape_tet(m, 0, 1, 3, 4); shape_tet(m, 0, 1, 2, 3); shape_tet(m, 0, 1, 4, 5);
  } else {
    shape_vertices(m, 7);
    shape_face(m, 3, 0, 1, 2, 0); shape_face(m, 3, 0, 2, 3, 0);
    struct VH a; a.idx_ = 4; struct VH b; b.idx_ = 5; TopologyKernel__add_edge(m, a, b, 0);
  }
}
