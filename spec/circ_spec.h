/* brute-force incidence predicates for the circulators (C05) */
static inline _Bool spec_vertex_in_hf(const TK *m, int hf, int v) {
  _Bool r = 0;
  for (unsigned long k = 0; k < LFV; k++) if (k < FVAL(m, hf >> 1) && spec_hf_vertex(m, hf, k) == v) r = 1;
  return r;
}
static inline _Bool spec_vertex_in_cell(const TK *m, int c, int v) {
  _Bool r = 0;
  for (unsigned long k = 0; k < LCV; k++) if (k < CVAL(m, c) && spec_vertex_in_hf(m, CHF(m, c, k), v)) r = 1;
  return r;
}
/* halfedge he or its opposite lies on some halfface of cell c */
static inline _Bool spec_he_in_cell(const TK *m, int c, int he) {
  _Bool r = 0;
  for (unsigned long k = 0; k < LCV; k++) if (k < CVAL(m, c) && (spec_he_in_hf(m, CHF(m, c, k), he) || spec_he_in_hf(m, CHF(m, c, k), he ^ 1))) r = 1;
  return r;
}
/* halfedge he itself lies on some halfface of cell c */
static inline _Bool spec_he_in_cell_oriented(const TK *m, int c, int he) {
  _Bool r = 0;
  for (unsigned long k = 0; k < LCV; k++) if (k < CVAL(m, c) && spec_he_in_hf(m, CHF(m, c, k), he)) r = 1;
  return r;
}
static inline _Bool spec_cells_share_face(const TK *m, int c, int d) {
  _Bool r = 0;
  for (unsigned long k = 0; k < LCV; k++) if (k < CVAL(m, c) && spec_cell_lists(m, d, CHF(m, c, k) ^ 1)) r = 1;
  return r;
}
