/* C09: rotational order of the halffaces around an edge (hand-written from the property statement).
 * adj(hf, he): the unique other halfface of hf's incident (live) cell that contains the opposite halfedge; -1 if hf is a
 * boundary halfface, -2 if not unique (no fan).  ordered(P): every non-last entry is a non-boundary halfface followed by
 * the opposite of its in-cell neighbour; the last entry is a boundary halfface or closes the ring.
 * The obligation: if SOME arrangement of the incident halffaces is ordered, the list after reorder_incident_halffaces is. */
static inline int spec_adj_in_cell(const TK *m, int hf, int he) {
  int c = spec_incident_cell(m, hf);
  if (c < 0) return -1;
  int r = -2, cnt = 0;
  for (unsigned long k = 0; k < LCV; k++) if (k < CVAL(m, c)) { int o = CHF(m, c, k); if (o != hf && o != (hf ^ 1) && spec_he_in_hf(m, o, he ^ 1)) { r = o; cnt++; } }
  return cnt == 1 ? r : -2;
}
static inline _Bool spec_ordered3(const TK *m, int he, const int *P, int n) {
  if (n <= 1) return 1;
  _Bool ok = 1;
  for (int i = 0; i < 3; i++) if (i + 1 < n) { int a = spec_adj_in_cell(m, P[i], he); ok &= a >= 0 && P[i + 1] == (a ^ 1); }
  int a = spec_adj_in_cell(m, P[n - 1], he);
  ok &= a == -1 || (a >= 0 && P[0] == (a ^ 1));
  return ok;
}
static inline _Bool spec_some_arrangement_ordered(const TK *m, int he, const int *L, int n) {
  if (n <= 1) return 1;
  if (n == 2) { int p0[3] = {L[0], L[1], 0}, p1[3] = {L[1], L[0], 0}; return spec_ordered3(m, he, p0, 2) || spec_ordered3(m, he, p1, 2); }
  static const int perm[6][3] = {{0,1,2},{0,2,1},{1,0,2},{1,2,0},{2,0,1},{2,1,0}};
  _Bool r = 0;
  for (int q = 0; q < 6; q++) { int p[3] = {L[perm[q][0]], L[perm[q][1]], L[perm[q][2]]}; if (spec_ordered3(m, he, p, 3)) r = 1; }
  return r;
}
