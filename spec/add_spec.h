/* C11: specification predicates for construction (hand-written from the property statement). */

/* all old entries unchanged at their index, k new ones appended */
static inline _Bool ext_bools(const struct vec_bool *o, const struct vec_bool *n, unsigned long k, unsigned long L) {
  _Bool ok = n->size == o->size + k;
  for (unsigned long i = 0; i < L; i++) if (i < o->size && i < n->size) ok &= n->data[i] == o->data[i];
  return ok;
}
static inline _Bool ext_ints(const struct vec_int *o, const struct vec_int *n, unsigned long k, unsigned long L) {
  _Bool ok = n->size == o->size + k;
  for (unsigned long i = 0; i < L; i++) if (i < o->size && i < n->size) ok &= n->data[i] == o->data[i];
  for (unsigned long i = 0; i < L; i++) if (i >= o->size && i < n->size) ok &= n->data[i] == GHOST_DEFAULT;    /* new slots start with the default value (C03) */
  return ok;
}
static inline _Bool ext_edges(const TK *o, const TK *n, unsigned long k) {
  _Bool ok = n->edges_.size == o->edges_.size + k;
  for (unsigned long e = 0; e < LE; e++) if (e < o->edges_.size && e < n->edges_.size) ok &= EFROM(n, e) == EFROM(o, e) && ETO(n, e) == ETO(o, e);
  return ok;
}
static inline _Bool ext_faces(const TK *o, const TK *n, unsigned long k) {
  _Bool ok = n->faces_.size == o->faces_.size + k;
  for (unsigned long f = 0; f < LF; f++) if (f < o->faces_.size && f < n->faces_.size) {
    ok &= FVAL(n, f) == FVAL(o, f);
    for (unsigned long j = 0; j < LFV; j++) if (j < FVAL(o, f) && j < FVAL(n, f)) ok &= FHE(n, f, j) == FHE(o, f, j);
  }
  return ok;
}
static inline _Bool ext_cells(const TK *o, const TK *n, unsigned long k) {
  _Bool ok = n->cells_.size == o->cells_.size + k;
  for (unsigned long c = 0; c < LC; c++) if (c < o->cells_.size && c < n->cells_.size) {
    ok &= CVAL(n, c) == CVAL(o, c);
    for (unsigned long j = 0; j < LCV; j++) if (j < CVAL(o, c) && j < CVAL(n, c)) ok &= CHF(n, c, j) == CHF(o, c, j);
  }
  return ok;
}

/* a live edge joining a and b in either direction exists */
static inline _Bool spec_live_edge_between(const TK *m, int a, int b) {
  _Bool r = 0;
  for (unsigned long e = 0; e < LE; e++) if (e < m->edges_.size && !EDEL(m, e) &&
      ((EFROM(m, e) == a && ETO(m, e) == b) || (EFROM(m, e) == b && ETO(m, e) == a))) r = 1;
  return r;
}
/* halfedges form a closed loop: each ends where the next begins, cyclically; the empty list is not a loop */
static inline _Bool spec_closed_loop(const TK *m, const int *l, int n) {
  if (n <= 0) return 0;
  _Bool ok = 1;
  for (int i = 0; i < LFV; i++) if (i < n) { int j = (i + 1 == n) ? 0 : i + 1; ok &= HETO(m, l[i]) == HEFROM(m, l[j]); }
  return ok;
}
/* k-th halfedge of halfface hf (side 1 = reversed opposites) */
static inline int spec_hf_he(const TK *m, int hf, unsigned long k) {
  int f = hf >> 1; unsigned long n = FVAL(m, f);
  return (hf & 1) ? (FHE(m, f, n - 1 - k) ^ 1) : FHE(m, f, k);
}
/* halffaces form a closed surface: every halfedge is used at most once and every used halfedge's opposite is used;
   the empty list is not a surface */
static inline _Bool spec_closed_surface(const TK *m, const int *l, int n) {
  if (n <= 0) return 0;
  _Bool ok = 1;
  for (int i = 0; i < LCV; i++) if (i < n)
    for (unsigned long k = 0; k < LFV; k++) if (k < FVAL(m, l[i] >> 1)) {
      int he = spec_hf_he(m, l[i], k);
      unsigned long same = 0, opp = 0;
      for (int j = 0; j < LCV; j++) if (j < n)
        for (unsigned long q = 0; q < LFV; q++) if (q < FVAL(m, l[j] >> 1)) {
          int h2 = spec_hf_he(m, l[j], q);
          if (h2 == he) same++;
          if (h2 == (he ^ 1)) opp++;
        }
      ok &= same == 1 && opp == 1;
    }
  return ok;
}
/* halfface hf is listed by some live cell */
static inline _Bool spec_hf_in_live_cell(const TK *m, int hf) {
  _Bool r = 0;
  for (unsigned long c = 0; c < LC; c++) if (c < m->cells_.size && !CDEL(m, c))
    for (unsigned long k = 0; k < LCV; k++) if (k < CVAL(m, c) && CHF(m, c, k) == hf) r = 1;
  return r;
}
