/* shared by every harness: ghost indices (quantifier-free "for all" in goal position, DESIGN 2.3) */
int nondet_int(void); unsigned long nondet_ulong(void); _Bool nondet_bool(void); unsigned char nondet_uchar(void);
unsigned int nondet_uint(void); long nondet_long(void);
static inline void ghost_havoc(void) { g_k = nondet_int(); g_j = nondet_int(); g_u = nondet_ulong(); }
/* vacuity guard: in the cover build every COVER must be reachable, i.e. its negated assertion must FAIL */
#ifdef COVER_RUN
#define COVER(c, name) __CPROVER_assert(!(c), "COVER " name)
#define COVER_END return
#else
#define COVER(c, name) ((void)0)
#define COVER_END ((void)0)
#endif
/* list argument of the operation under test, recorded for replay */
int ovm_list[16]; int ovm_list_n;
