/* brute-force specification scans for the lookup queries (C10), the half-entity views (C08) and the cache readers (C01) */
static inline int spec_hf_vertex(const TK *m, int hf, unsigned long k) { return HEFROM(m, spec_hf_he(m, hf, k)); }
static inline _Bool spec_live_he(const TK *m, int a, int b) {           /* some live halfedge runs a -> b */
  _Bool r = 0;
  for (unsigned long he = 0; he < 2 * LE; he++) if (he < 2 * m->edges_.size && !EDEL(m, he >> 1) && HEFROM(m, he) == a && HETO(m, he) == b) r = 1;
  return r;
}
static inline _Bool spec_he_in_hf(const TK *m, int hf, int he) {
  _Bool r = 0;
  for (unsigned long k = 0; k < LFV; k++) if (k < FVAL(m, hf >> 1) && spec_hf_he(m, hf, k) == he) r = 1;
  return r;
}
/* vertices a,b,c occur consecutively (cyclically) in halfface hf */
static inline _Bool spec_consecutive3(const TK *m, int hf, int a, int b, int c) {
  _Bool r = 0; unsigned long n = FVAL(m, hf >> 1);
  for (unsigned long k = 0; k < LFV; k++) if (k < n && n >= 1)
    if (spec_hf_vertex(m, hf, k) == a && spec_hf_vertex(m, hf, (k + 1) % n) == b && spec_hf_vertex(m, hf, (k + 2) % n) == c) r = 1;
  return r;
}
/* the vertex cycle of hf, started at its occurrence of vs[0], equals vs[0..n) */
static inline _Bool spec_cycle_equals(const TK *m, int hf, const int *vs, int n) {
  unsigned long fv = FVAL(m, hf >> 1);
  if ((int)fv != n || n <= 0) return 0;
  _Bool r = 0;
  for (unsigned long s = 0; s < LFV; s++) if (s < fv) {
    _Bool all = 1;
    for (unsigned long i = 0; i < LFV; i++) if (i < fv) all &= spec_hf_vertex(m, hf, (s + i) % fv) == vs[i];
    if (all) r = 1;
  }
  return r;
}
static inline _Bool spec_hf_in_cell(const TK *m, int c, int hf) { return spec_cell_lists(m, c, hf); }
static inline unsigned long spec_n_vertices_in_cell(const TK *m, int c) {
  unsigned long n = 0;
  for (unsigned long v = 0; v < LV; v++) if (v < m->n_vertices_) {
    _Bool used = 0;
    for (unsigned long k = 0; k < LCV; k++) if (k < CVAL(m, c))
      for (unsigned long j = 0; j < LFV; j++) if (j < FVAL(m, CHF(m, c, k) >> 1) && spec_hf_vertex(m, CHF(m, c, k), j) == (int)v) used = 1;
    if (used) n++;
  }
  return n;
}
/* brute-force incident cell of a halfface: the live cell listing it, or -1 */
static inline int spec_incident_cell(const TK *m, int hf) {
  int r = -1;
  for (unsigned long c = 0; c < LC; c++) if (c < m->cells_.size && !CDEL(m, c) && spec_cell_lists(m, (int)c, hf)) r = (int)c;
  return r;
}
static inline unsigned long spec_valence_vertex(const TK *m, int v) {   /* live halfedges leaving v */
  unsigned long n = 0;
  for (unsigned long he = 0; he < 2 * LE; he++) if (he < 2 * m->edges_.size && !EDEL(m, he >> 1) && HEFROM(m, he) == v) n++;
  return n;
}
static inline unsigned long spec_valence_edge(const TK *m, int e) {     /* live halffaces containing halfedge 2e, with multiplicity */
  unsigned long n = 0;
  for (unsigned long hf = 0; hf < 2 * LF; hf++) if (hf < 2 * m->faces_.size && !FDEL(m, hf >> 1)) n += spec_count_he_in_hf(m, (int)hf, 2 * e);
  return n;
}
static inline _Bool spec_boundary_face(const TK *m, int f) { return spec_incident_cell(m, 2 * f) == -1 || spec_incident_cell(m, 2 * f + 1) == -1; }
static inline _Bool spec_boundary_halfedge(const TK *m, int he) {      /* some live face containing he (on either side) is a boundary face */
  _Bool r = 0;
  for (unsigned long hf = 0; hf < 2 * LF; hf++) if (hf < 2 * m->faces_.size && !FDEL(m, hf >> 1) && spec_count_he_in_hf(m, (int)hf, he) > 0 && spec_boundary_face(m, (int)(hf >> 1))) r = 1;
  return r;
}
static inline _Bool spec_boundary_vertex(const TK *m, int v) {
  _Bool r = 0;
  for (unsigned long he = 0; he < 2 * LE; he++) if (he < 2 * m->edges_.size && !EDEL(m, he >> 1) && HEFROM(m, he) == v && spec_boundary_halfedge(m, (int)he)) r = 1;
  return r;
}
static inline _Bool spec_boundary_cell(const TK *m, int c) {
  _Bool r = 0;
  for (unsigned long k = 0; k < LCV; k++) if (k < CVAL(m, c) && spec_boundary_face(m, CHF(m, c, k) >> 1)) r = 1;
  return r;
}
