/* C04: "the logical mesh is preserved" in uid form (DESIGN 4.5 b). The ghost property arrays carry unique ids of the
 * live entities in the pre-state (assumed distinct by the harness); after collection every entity must be a former live
 * entity with the same definition expressed in ids, and every former live entity must still be there. No renumbering is
 * named, so any correct renumbering passes. */
static inline _Bool gc_uids_distinct(const TK *m) {
  _Bool ok = 1;
  for (unsigned long i = 0; i < LV; i++) for (unsigned long j = 0; j < LV; j++) if (i < j && j < m->n_vertices_ && !VDEL(m, i) && !VDEL(m, j)) ok &= m->ghost_v.data[i] != m->ghost_v.data[j];
  for (unsigned long i = 0; i < LE; i++) for (unsigned long j = 0; j < LE; j++) if (i < j && j < m->edges_.size && !EDEL(m, i) && !EDEL(m, j)) ok &= m->ghost_e.data[i] != m->ghost_e.data[j];
  for (unsigned long i = 0; i < LF; i++) for (unsigned long j = 0; j < LF; j++) if (i < j && j < m->faces_.size && !FDEL(m, i) && !FDEL(m, j)) ok &= m->ghost_f.data[i] != m->ghost_f.data[j];
  for (unsigned long i = 0; i < LC; i++) for (unsigned long j = 0; j < LC; j++) if (i < j && j < m->cells_.size && !CDEL(m, i) && !CDEL(m, j)) ok &= m->ghost_c.data[i] != m->ghost_c.data[j];
  for (unsigned long i = 0; i < LV; i++) if (i < m->n_vertices_) ok &= m->ghost_v.data[i] != GHOST_DEFAULT;
  return ok;
}
/* index in n of the vertex/edge/face/cell carrying uid u, or -1 */
static inline int gc_find(const struct vec_int *g, int u, unsigned long L) { int r = -1; for (unsigned long i = 0; i < L; i++) if (i < g->size && g->data[i] == u) r = (int)i; return r; }

static inline _Bool gc_logical_mesh_preserved(const TK *o, const TK *n) {
  _Bool ok = 1;
  unsigned long lv = 0, le = 0, lf = 0, lc = 0;
  /* every former live vertex survives exactly once */
  for (unsigned long v = 0; v < LV; v++) if (v < o->n_vertices_ && !VDEL(o, v)) { lv++; ok &= gc_find(&n->ghost_v, o->ghost_v.data[v], LV) >= 0; }
  for (unsigned long e = 0; e < LE; e++) if (e < o->edges_.size && !EDEL(o, e)) {
    le++;
    int j = gc_find(&n->ghost_e, o->ghost_e.data[e], LE);
    ok &= j >= 0;
    if (j >= 0 && (unsigned long)j < n->edges_.size) {
      int a = EFROM(n, j), b = ETO(n, j);
      _Bool in = a >= 0 && (unsigned long)a < n->n_vertices_ && b >= 0 && (unsigned long)b < n->n_vertices_;
      ok &= in;
      if (in) ok &= n->ghost_v.data[a] == o->ghost_v.data[EFROM(o, e)] && n->ghost_v.data[b] == o->ghost_v.data[ETO(o, e)];
      /* halfedge property values stay on their side */
      ok &= n->ghost_he.data[2 * j] == o->ghost_he.data[2 * e] && n->ghost_he.data[2 * j + 1] == o->ghost_he.data[2 * e + 1];
    }
  }
  for (unsigned long f = 0; f < LF; f++) if (f < o->faces_.size && !FDEL(o, f)) {
    lf++;
    int j = gc_find(&n->ghost_f, o->ghost_f.data[f], LF);
    ok &= j >= 0;
    if (j >= 0 && (unsigned long)j < n->faces_.size) {
      ok &= FVAL(n, j) == FVAL(o, f);
      for (unsigned long k = 0; k < LFV; k++) if (k < FVAL(o, f) && k < FVAL(n, j)) {
        int hn = FHE(n, j, k), ho = FHE(o, f, k);
        _Bool in = hn >= 0 && (unsigned long)hn < 2 * n->edges_.size;
        ok &= in;
        if (in) ok &= (hn & 1) == (ho & 1) && n->ghost_e.data[hn >> 1] == o->ghost_e.data[ho >> 1];
      }
      ok &= n->ghost_hf.data[2 * j] == o->ghost_hf.data[2 * f] && n->ghost_hf.data[2 * j + 1] == o->ghost_hf.data[2 * f + 1];
    }
  }
  for (unsigned long c = 0; c < LC; c++) if (c < o->cells_.size && !CDEL(o, c)) {
    lc++;
    int j = gc_find(&n->ghost_c, o->ghost_c.data[c], LC);
    ok &= j >= 0;
    if (j >= 0 && (unsigned long)j < n->cells_.size) {
      ok &= CVAL(n, j) == CVAL(o, c);
      for (unsigned long k = 0; k < LCV; k++) if (k < CVAL(o, c) && k < CVAL(n, j)) {
        int hn = CHF(n, j, k), ho = CHF(o, c, k);
        _Bool in = hn >= 0 && (unsigned long)hn < 2 * n->faces_.size;
        ok &= in;
        if (in) ok &= (hn & 1) == (ho & 1) && n->ghost_f.data[hn >> 1] == o->ghost_f.data[ho >> 1];
      }
    }
  }
  /* ... and nothing else is there: counts equal the logical counts */
  ok &= n->n_vertices_ == lv && n->edges_.size == le && n->faces_.size == lf && n->cells_.size == lc;
  return ok;
}
static inline _Bool gc_nothing_pending(const TK *n) {
  _Bool ok = n->n_deleted_vertices_ == 0 && n->n_deleted_edges_ == 0 && n->n_deleted_faces_ == 0 && n->n_deleted_cells_ == 0;
  for (unsigned long i = 0; i < LV; i++) if (i < n->n_vertices_) ok &= !VDEL(n, i);
  for (unsigned long i = 0; i < LE; i++) if (i < n->edges_.size) ok &= !EDEL(n, i);
  for (unsigned long i = 0; i < LF; i++) if (i < n->faces_.size) ok &= !FDEL(n, i);
  for (unsigned long i = 0; i < LC; i++) if (i < n->cells_.size) ok &= !CDEL(n, i);
  return ok;
}
