/* Representation invariant WF(m) of TopologyKernel and the symbolic-state constructor (DESIGN 4.4).
 * Specification text (hand-written, part of the contracts) over the struct layout that cxx2c
 * generates from the real class definitions. Straight-line predicates: `ok &= ...` over constant
 * loop bounds LV/LE/LF/LC/LFV/LCV/LOUT/LINC (allocated capacities, >= every size reachable in a run;
 * exceeding one trips a "vstd-capacity" assertion, which is reported as "bound too small").  */
#ifndef LV
#error "harness must define LV LE LF LC LFV LCV LOUT LINC (loop bounds = allocated capacities)"
#endif
#define INV (-1)
typedef struct TopologyKernel TK;
/* storage of a vstd container: heap block (pointer mode) or the inline array (VSTD_INLINE mode) */
#ifdef VSTD_INLINE
#define VALLOC(v, T, n) do { __CPROVER_assert(sizeof((v)->data) / sizeof((v)->data[0]) >= (n), "vstd-capacity: inline capacity covers the loop bound"); (v)->cap = sizeof((v)->data) / sizeof((v)->data[0]); } while (0)
#else
#define VALLOC(v, T, n) do { (v)->data = malloc(sizeof(T) * ((n) ? (n) : 1)); (v)->cap = (n); } while (0)
#endif

#define EFROM(m, e) ((m)->edges_.data[e].fromVertex_.idx_)
#define ETO(m, e)   ((m)->edges_.data[e].toVertex_.idx_)
#define HEFROM(m, he) (((he) & 1) ? ETO(m, (he) >> 1) : EFROM(m, (he) >> 1))
#define HETO(m, he)   (((he) & 1) ? EFROM(m, (he) >> 1) : ETO(m, (he) >> 1))
#define FVAL(m, f)  ((m)->faces_.data[f].halfedges_.size)
#define FHE(m, f, k) ((m)->faces_.data[f].halfedges_.data[k].idx_)
#define CVAL(m, c)  ((m)->cells_.data[c].halffaces_.size)
#define CHF(m, c, k) ((m)->cells_.data[c].halffaces_.data[k].idx_)
#define VDEL(m, v) ((m)->vertex_deleted_.data[v])
#define EDEL(m, e) ((m)->edge_deleted_.data[e])
#define FDEL(m, f) ((m)->face_deleted_.data[f])
#define CDEL(m, c) ((m)->cell_deleted_.data[c])
#define OUTN(m, v) ((m)->outgoing_hes_per_vertex_.data[v].size)
#define OUT(m, v, k) ((m)->outgoing_hes_per_vertex_.data[v].data[k].idx_)
#define INCN(m, he) ((m)->incident_hfs_per_he_.data[he].size)
#define INC(m, he, k) ((m)->incident_hfs_per_he_.data[he].data[k].idx_)
#define ICELL(m, hf) ((m)->incident_cell_per_hf_.data[hf].idx_)

/* number of occurrences of halfedge `he` in halfface `hf` (side 1 = reversed opposites) */
static inline unsigned long spec_count_he_in_hf(const TK *m, int hf, int he) {
  unsigned long n = 0; int f = hf >> 1; int want = (hf & 1) ? (he ^ 1) : he;
  for (unsigned long k = 0; k < LFV; k++) if (k < FVAL(m, f) && FHE(m, f, k) == want) n++;
  return n;
}
static inline unsigned long spec_count_in_inc(const TK *m, int he, int hf) {
  unsigned long n = 0;
  for (unsigned long k = 0; k < LINC; k++) if (k < INCN(m, he) && INC(m, he, k) == hf) n++;
  return n;
}
static inline unsigned long spec_count_in_out(const TK *m, int v, int he) {
  unsigned long n = 0;
  for (unsigned long k = 0; k < LOUT; k++) if (k < OUTN(m, v) && OUT(m, v, k) == he) n++;
  return n;
}
static inline _Bool spec_cell_lists(const TK *m, int c, int hf) {
  _Bool r = 0;
  for (unsigned long k = 0; k < LCV; k++) if (k < CVAL(m, c) && CHF(m, c, k) == hf) r = 1;
  return r;
}

/* clauses 1-3 and 7: sizes, ranges, liveness closure, mode/counters, ghost property sizes */
static inline _Bool wf_defs(const TK *m) {
  _Bool ok = 1;
  unsigned long nv = m->n_vertices_, ne = m->edges_.size, nf = m->faces_.size, nc = m->cells_.size;
  ok &= nv <= LV && ne <= LE && nf <= LF && nc <= LC;
  ok &= m->vertex_deleted_.size == nv && m->edge_deleted_.size == ne && m->face_deleted_.size == nf && m->cell_deleted_.size == nc;
  ok &= m->ghost_v.size == nv && m->ghost_e.size == ne && m->ghost_he.size == 2 * ne && m->ghost_f.size == nf && m->ghost_hf.size == 2 * nf && m->ghost_c.size == nc;
  unsigned long dv = 0, de = 0, df = 0, dc = 0;
  for (unsigned long v = 0; v < LV; v++) if (v < nv && VDEL(m, v)) dv++;
  for (unsigned long e = 0; e < LE; e++) if (e < ne) {
    if (EDEL(m, e)) de++;
    int a = EFROM(m, e), b = ETO(m, e);
    _Bool in = a >= 0 && (unsigned long)a < nv && b >= 0 && (unsigned long)b < nv;
    ok &= in;
    if (in && !EDEL(m, e)) ok &= !VDEL(m, a) && !VDEL(m, b);
  }
  for (unsigned long f = 0; f < LF; f++) if (f < nf) {
    if (FDEL(m, f)) df++;
    ok &= FVAL(m, f) <= LFV;
    for (unsigned long k = 0; k < LFV; k++) if (k < FVAL(m, f)) {
      int he = FHE(m, f, k);
      _Bool in = he >= 0 && (unsigned long)he < 2 * ne;
      ok &= in;
      if (in && !FDEL(m, f)) ok &= !EDEL(m, he >> 1);
    }
  }
  for (unsigned long c = 0; c < LC; c++) if (c < nc) {
    if (CDEL(m, c)) dc++;
    ok &= CVAL(m, c) <= LCV;
    for (unsigned long k = 0; k < LCV; k++) if (k < CVAL(m, c)) {
      int hf = CHF(m, c, k);
      _Bool in = hf >= 0 && (unsigned long)hf < 2 * nf;
      ok &= in;
      if (in && !CDEL(m, c)) ok &= !FDEL(m, hf >> 1);
    }
  }
  ok &= m->n_deleted_vertices_ == dv && m->n_deleted_edges_ == de && m->n_deleted_faces_ == df && m->n_deleted_cells_ == dc;
  if (!m->deferred_deletion_) ok &= dv == 0 && de == 0 && df == 0 && dc == 0;
  return ok;
}

/* clause 4: vertex -> outgoing halfedges cache */
static inline _Bool wf_vcache(const TK *m) {
  _Bool ok = 1;
  unsigned long nv = m->n_vertices_, ne = m->edges_.size;
  if (!m->v_bottom_up_) return m->outgoing_hes_per_vertex_.size == 0;
  ok &= m->outgoing_hes_per_vertex_.size == nv;
  if (!ok) return 0;
  for (unsigned long v = 0; v < LV; v++) if (v < nv) {
    ok &= OUTN(m, v) <= LOUT;
    for (unsigned long k = 0; k < LOUT; k++) if (k < OUTN(m, v)) {
      int he = OUT(m, v, k);
      _Bool in = he >= 0 && (unsigned long)he < 2 * ne;
      ok &= in;
      if (in) ok &= !EDEL(m, he >> 1) && HEFROM(m, he) == (int)v;
    }
  }
  /* every live halfedge occurs exactly once in its source's list (this also excludes duplicates) */
  for (unsigned long he = 0; he < 2 * LE; he++) if (he < 2 * ne && !EDEL(m, he >> 1)) {
    int s = HEFROM(m, he);
    if (s >= 0 && (unsigned long)s < nv) ok &= spec_count_in_out(m, s, (int)he) == 1;
  }
  /* no entry occurs twice (covers entries of deleted edges being absent: they are excluded above) */
  return ok;
}

/* clause 5: halfedge -> incident halffaces cache (multiset equality with the definitions of live faces) */
static inline _Bool wf_ecache(const TK *m) {
  _Bool ok = 1;
  unsigned long ne = m->edges_.size, nf = m->faces_.size;
  if (!m->e_bottom_up_) return m->incident_hfs_per_he_.size == 0;
  ok &= m->incident_hfs_per_he_.size == 2 * ne;
  if (!ok) return 0;
  for (unsigned long he = 0; he < 2 * LE; he++) if (he < 2 * ne) {
    ok &= INCN(m, he) <= LINC;
    for (unsigned long k = 0; k < LINC; k++) if (k < INCN(m, he)) {
      int hf = INC(m, he, k);
      ok &= hf >= 0 && (unsigned long)hf < 2 * nf;
    }
    for (unsigned long hf = 0; hf < 2 * LF; hf++) if (hf < 2 * nf) {
      unsigned long want = FDEL(m, hf >> 1) ? 0 : spec_count_he_in_hf(m, (int)hf, (int)he);
      ok &= spec_count_in_inc(m, (int)he, (int)hf) == want;
    }
  }
  return ok;
}

/* clause 6: halfface -> incident cell cache */
static inline _Bool wf_fcache(const TK *m) {
  _Bool ok = 1;
  unsigned long nf = m->faces_.size, nc = m->cells_.size;
  if (!m->f_bottom_up_) return m->incident_cell_per_hf_.size == 0;
  ok &= m->incident_cell_per_hf_.size == 2 * nf;
  if (!ok) return 0;
  for (unsigned long hf = 0; hf < 2 * LF; hf++) if (hf < 2 * nf) {
    int c = ICELL(m, hf);
    _Bool in = c == INV || (c >= 0 && (unsigned long)c < nc);
    ok &= in;
    if (in && c != INV) ok &= !CDEL(m, c) && spec_cell_lists(m, c, (int)hf);
  }
  for (unsigned long c = 0; c < LC; c++) if (c < nc && !CDEL(m, c))
    for (unsigned long k = 0; k < LCV; k++) if (k < CVAL(m, c)) {
      int hf = CHF(m, c, k);
      if (hf >= 0 && (unsigned long)hf < 2 * nf) ok &= ICELL(m, hf) == (int)c;
    }
  return ok;
}

static inline _Bool wf(const TK *m) {
  return wf_defs(m) && wf_vcache(m) && wf_ecache(m) && wf_fcache(m);
}

/* ------------------------------------------------------------------ symbolic state
 * Every container is allocated at its loop bound; contents are whatever malloc returns (nondet in CBMC);
 * sizes are nondet within the PRE caps PV/PE/PF/PC/PFV/PCV/POUT/PINC (<= loop bounds).
 * Mode flags: harness constants CFG_V CFG_E CFG_F CFG_DEFERRED CFG_FAST. */
static inline unsigned long sym_size(unsigned long cap) { unsigned long n = nondet_ulong(); __CPROVER_assume(n <= cap); return n; }
static inline void sym_vec_int(struct vec_int *v, unsigned long n, unsigned long cap) { VALLOC(v, int, cap); v->size = n; }
static inline void sym_vec_bool(struct vec_bool *v, unsigned long n, unsigned long cap) { VALLOC(v, _Bool, cap); v->size = n;
  for (unsigned long i = 0; i < cap; i++) v->data[i] = nondet_bool(); }

static inline void sym_mesh(TK *m) {
  unsigned long nv = sym_size(PV), ne = sym_size(PE), nf = sym_size(PF), nc = sym_size(PC);
  m->n_vertices_ = nv;
  m->v_bottom_up_ = CFG_V; m->e_bottom_up_ = CFG_E; m->f_bottom_up_ = CFG_F;
  m->deferred_deletion_ = CFG_DEFERRED; m->fast_deletion_ = CFG_FAST;
  VALLOC(&m->edges_, struct OpenVolumeMeshEdge, LE); m->edges_.size = ne;
  VALLOC(&m->faces_, struct OpenVolumeMeshFace, LF); m->faces_.size = nf;
  for (unsigned long f = 0; f < LF; f++) {
    struct vec_HEH *l = &m->faces_.data[f].halfedges_;
    VALLOC(l, struct HEH, LFV); l->size = sym_size(PFV);
  }
  VALLOC(&m->cells_, struct OpenVolumeMeshCell, LC); m->cells_.size = nc;
  for (unsigned long c = 0; c < LC; c++) {
    struct vec_HFH *l = &m->cells_.data[c].halffaces_;
    VALLOC(l, struct HFH, LCV); l->size = sym_size(PCV);
  }
  sym_vec_bool(&m->vertex_deleted_, nv, LV); sym_vec_bool(&m->edge_deleted_, ne, LE);
  sym_vec_bool(&m->face_deleted_, nf, LF); sym_vec_bool(&m->cell_deleted_, nc, LC);
  m->n_deleted_vertices_ = nondet_ulong(); m->n_deleted_edges_ = nondet_ulong();
  m->n_deleted_faces_ = nondet_ulong(); m->n_deleted_cells_ = nondet_ulong();
  VALLOC(&m->outgoing_hes_per_vertex_, struct vec_HEH, LV);
  m->outgoing_hes_per_vertex_.size = CFG_V ? nv : 0;
  for (unsigned long v = 0; v < LV; v++) {
    struct vec_HEH *l = &m->outgoing_hes_per_vertex_.data[v];
    VALLOC(l, struct HEH, LOUT); l->size = sym_size(POUT);
  }
  VALLOC(&m->incident_hfs_per_he_, struct vec_HFH, 2 * LE);
  m->incident_hfs_per_he_.size = CFG_E ? 2 * ne : 0;
  for (unsigned long h = 0; h < 2 * LE; h++) {
    struct vec_HFH *l = &m->incident_hfs_per_he_.data[h];
    VALLOC(l, struct HFH, LINC); l->size = sym_size(PINC);
  }
  VALLOC(&m->incident_cell_per_hf_, struct CH, 2 * LF);
  m->incident_cell_per_hf_.size = CFG_F ? 2 * nf : 0;
  sym_vec_int(&m->ghost_v, nv, LV); sym_vec_int(&m->ghost_e, ne, LE); sym_vec_int(&m->ghost_he, 2 * ne, 2 * LE);
  sym_vec_int(&m->ghost_f, nf, LF); sym_vec_int(&m->ghost_hf, 2 * nf, 2 * LF); sym_vec_int(&m->ghost_c, nc, LC);
}

/* ------------------------------------------------------------------ ghost property storage (DESIGN 4.6)
 * Bodies of the ResourceManager template-level notifications, acting on one ghost int array per entity
 * kind. They stand for "every tracked PropertyStorageT<T> performs the same element operation" (trusted;
 * the element operations themselves are verified in obligations/props.py). */
#define GHOST_DEFAULT (-77)
static inline void ghost_resize(struct vec_int *g, unsigned long n) { vec_int_resize_val(g, n, GHOST_DEFAULT); }
static inline void ghost_erase(struct vec_int *g, int i) {
  __CPROVER_assert(i >= 0 && (unsigned long)i < g->size, "ghost-props: deleted element exists");
  struct vit_int it; it.v = g; it.i = (unsigned long)i; vec_int_erase(g, it);
}
static inline void ghost_swap(struct vec_int *g, int a, int b) {
  __CPROVER_assert(a >= 0 && (unsigned long)a < g->size && b >= 0 && (unsigned long)b < g->size, "ghost-props: swapped elements exist");
  int t = g->data[a]; g->data[a] = g->data[b]; g->data[b] = t;
}
static inline void ghost_copy(struct vec_int *g, int src, int dst) {
  __CPROVER_assert(src >= 0 && (unsigned long)src < g->size && dst >= 0 && (unsigned long)dst < g->size, "ghost-props: copied elements exist");
  g->data[dst] = g->data[src];
}

/* ------------------------------------------------------------------ witness: flatten a state into one global
 * int array so that a CBMC trace carries the complete pre-state in a fixed, parseable layout
 * (replay/native.py decodes it with the same layout). */
#define WN (16 + 3 * LE + 2 * LV + LF * (2 + LFV) + LC * (2 + LCV) + 1 + LV * (1 + LOUT) + 1 + 2 * LE * (1 + LINC) + 1 + 2 * LF + LE + 2 * LE + LF + 2 * LF + LC + 8)
int ovm_w[WN];
static inline void witness(const TK *m, int a0, int a1, int a2, int a3) {
  unsigned long p = 0;
  ovm_w[p++] = (int)m->n_vertices_; ovm_w[p++] = (int)m->edges_.size; ovm_w[p++] = (int)m->faces_.size; ovm_w[p++] = (int)m->cells_.size;
  ovm_w[p++] = m->v_bottom_up_; ovm_w[p++] = m->e_bottom_up_; ovm_w[p++] = m->f_bottom_up_; ovm_w[p++] = m->deferred_deletion_; ovm_w[p++] = m->fast_deletion_;
  ovm_w[p++] = (int)m->n_deleted_vertices_; ovm_w[p++] = (int)m->n_deleted_edges_; ovm_w[p++] = (int)m->n_deleted_faces_; ovm_w[p++] = (int)m->n_deleted_cells_;
  ovm_w[p++] = a0; ovm_w[p++] = a1; ovm_w[p++] = a2;
  for (unsigned long e = 0; e < LE; e++) { _Bool in = e < m->edges_.size; ovm_w[p++] = in ? EFROM(m, e) : -9; ovm_w[p++] = in ? ETO(m, e) : -9; ovm_w[p++] = in ? EDEL(m, e) : -9; }
  for (unsigned long v = 0; v < LV; v++) { _Bool in = v < m->n_vertices_; ovm_w[p++] = in ? VDEL(m, v) : -9; ovm_w[p++] = in ? m->ghost_v.data[v] : -9; }
  for (unsigned long f = 0; f < LF; f++) { _Bool in = f < m->faces_.size; ovm_w[p++] = in ? FDEL(m, f) : -9; ovm_w[p++] = in ? (int)FVAL(m, f) : -9;
    for (unsigned long k = 0; k < LFV; k++) ovm_w[p++] = (in && k < FVAL(m, f)) ? FHE(m, f, k) : -9; }
  for (unsigned long c = 0; c < LC; c++) { _Bool in = c < m->cells_.size; ovm_w[p++] = in ? CDEL(m, c) : -9; ovm_w[p++] = in ? (int)CVAL(m, c) : -9;
    for (unsigned long k = 0; k < LCV; k++) ovm_w[p++] = (in && k < CVAL(m, c)) ? CHF(m, c, k) : -9; }
  ovm_w[p++] = (int)m->outgoing_hes_per_vertex_.size;
  for (unsigned long v = 0; v < LV; v++) { _Bool in = v < m->outgoing_hes_per_vertex_.size; ovm_w[p++] = in ? (int)OUTN(m, v) : -9;
    for (unsigned long k = 0; k < LOUT; k++) ovm_w[p++] = (in && k < OUTN(m, v)) ? OUT(m, v, k) : -9; }
  ovm_w[p++] = (int)m->incident_hfs_per_he_.size;
  for (unsigned long h = 0; h < 2 * LE; h++) { _Bool in = h < m->incident_hfs_per_he_.size; ovm_w[p++] = in ? (int)INCN(m, h) : -9;
    for (unsigned long k = 0; k < LINC; k++) ovm_w[p++] = (in && k < INCN(m, h)) ? INC(m, h, k) : -9; }
  ovm_w[p++] = (int)m->incident_cell_per_hf_.size;
  for (unsigned long h = 0; h < 2 * LF; h++) ovm_w[p++] = h < m->incident_cell_per_hf_.size ? ICELL(m, h) : -9;
  for (unsigned long e = 0; e < LE; e++) ovm_w[p++] = e < m->ghost_e.size ? m->ghost_e.data[e] : -9;
  for (unsigned long e = 0; e < 2 * LE; e++) ovm_w[p++] = e < m->ghost_he.size ? m->ghost_he.data[e] : -9;
  for (unsigned long f = 0; f < LF; f++) ovm_w[p++] = f < m->ghost_f.size ? m->ghost_f.data[f] : -9;
  for (unsigned long f = 0; f < 2 * LF; f++) ovm_w[p++] = f < m->ghost_hf.size ? m->ghost_hf.data[f] : -9;
  for (unsigned long c = 0; c < LC; c++) ovm_w[p++] = c < m->ghost_c.size ? m->ghost_c.data[c] : -9;
  ovm_w[p++] = a3;
}

/* inverse of witness(): build a concrete state from a witness array (native replay only) */
static inline void unwitness(const int *w, TK *m, int *args) {
  unsigned long p = 0;
  unsigned long nv = (unsigned long)w[p++], ne = (unsigned long)w[p++], nf = (unsigned long)w[p++], nc = (unsigned long)w[p++];
  m->n_vertices_ = nv;
  m->v_bottom_up_ = w[p++]; m->e_bottom_up_ = w[p++]; m->f_bottom_up_ = w[p++]; m->deferred_deletion_ = w[p++]; m->fast_deletion_ = w[p++];
  m->n_deleted_vertices_ = (unsigned long)w[p++]; m->n_deleted_edges_ = (unsigned long)w[p++]; m->n_deleted_faces_ = (unsigned long)w[p++]; m->n_deleted_cells_ = (unsigned long)w[p++];
  args[0] = w[p++]; args[1] = w[p++]; args[2] = w[p++];
  VALLOC(&m->edges_, struct OpenVolumeMeshEdge, LE); m->edges_.size = ne;
  VALLOC(&m->edge_deleted_, _Bool, LE); m->edge_deleted_.size = ne;
  for (unsigned long e = 0; e < LE; e++) { m->edges_.data[e].fromVertex_.idx_ = w[p++]; m->edges_.data[e].toVertex_.idx_ = w[p++]; m->edge_deleted_.data[e] = w[p++] == 1; }
  VALLOC(&m->vertex_deleted_, _Bool, LV); m->vertex_deleted_.size = nv;
  VALLOC(&m->ghost_v, int, LV); m->ghost_v.size = nv;
  for (unsigned long v = 0; v < LV; v++) { m->vertex_deleted_.data[v] = w[p++] == 1; m->ghost_v.data[v] = w[p++]; }
  VALLOC(&m->faces_, struct OpenVolumeMeshFace, LF); m->faces_.size = nf;
  VALLOC(&m->face_deleted_, _Bool, LF); m->face_deleted_.size = nf;
  for (unsigned long f = 0; f < LF; f++) { m->face_deleted_.data[f] = w[p++] == 1; int n = w[p++];
    struct vec_HEH *l = &m->faces_.data[f].halfedges_; VALLOC(l, struct HEH, LFV); l->size = n < 0 ? 0 : (unsigned long)n;
    for (unsigned long k = 0; k < LFV; k++) l->data[k].idx_ = w[p++]; }
  VALLOC(&m->cells_, struct OpenVolumeMeshCell, LC); m->cells_.size = nc;
  VALLOC(&m->cell_deleted_, _Bool, LC); m->cell_deleted_.size = nc;
  for (unsigned long c = 0; c < LC; c++) { m->cell_deleted_.data[c] = w[p++] == 1; int n = w[p++];
    struct vec_HFH *l = &m->cells_.data[c].halffaces_; VALLOC(l, struct HFH, LCV); l->size = n < 0 ? 0 : (unsigned long)n;
    for (unsigned long k = 0; k < LCV; k++) l->data[k].idx_ = w[p++]; }
  VALLOC(&m->outgoing_hes_per_vertex_, struct vec_HEH, LV); m->outgoing_hes_per_vertex_.size = (unsigned long)w[p++];
  for (unsigned long v = 0; v < LV; v++) { int n = w[p++]; struct vec_HEH *l = &m->outgoing_hes_per_vertex_.data[v];
    VALLOC(l, struct HEH, LOUT); l->size = n < 0 ? 0 : (unsigned long)n; for (unsigned long k = 0; k < LOUT; k++) l->data[k].idx_ = w[p++]; }
  VALLOC(&m->incident_hfs_per_he_, struct vec_HFH, 2 * LE); m->incident_hfs_per_he_.size = (unsigned long)w[p++];
  for (unsigned long h = 0; h < 2 * LE; h++) { int n = w[p++]; struct vec_HFH *l = &m->incident_hfs_per_he_.data[h];
    VALLOC(l, struct HFH, LINC); l->size = n < 0 ? 0 : (unsigned long)n; for (unsigned long k = 0; k < LINC; k++) l->data[k].idx_ = w[p++]; }
  VALLOC(&m->incident_cell_per_hf_, struct CH, 2 * LF); m->incident_cell_per_hf_.size = (unsigned long)w[p++];
  for (unsigned long h = 0; h < 2 * LF; h++) m->incident_cell_per_hf_.data[h].idx_ = w[p++];
  VALLOC(&m->ghost_e, int, LE); m->ghost_e.size = ne; for (unsigned long e = 0; e < LE; e++) m->ghost_e.data[e] = w[p++];
  VALLOC(&m->ghost_he, int, 2 * LE); m->ghost_he.size = 2 * ne; for (unsigned long e = 0; e < 2 * LE; e++) m->ghost_he.data[e] = w[p++];
  VALLOC(&m->ghost_f, int, LF); m->ghost_f.size = nf; for (unsigned long f = 0; f < LF; f++) m->ghost_f.data[f] = w[p++];
  VALLOC(&m->ghost_hf, int, 2 * LF); m->ghost_hf.size = 2 * nf; for (unsigned long f = 0; f < 2 * LF; f++) m->ghost_hf.data[f] = w[p++];
  VALLOC(&m->ghost_c, int, LC); m->ghost_c.size = nc; for (unsigned long c = 0; c < LC; c++) m->ghost_c.data[c] = w[p++];
  args[3] = w[p++];
}

/* ------------------------------------------------------------------ closure / usage spec functions (C02) */
static inline _Bool spec_vertex_used(const TK *m, int v) {   /* some live edge has v as an endpoint */
  _Bool r = 0;
  for (unsigned long e = 0; e < LE; e++) if (e < m->edges_.size && !EDEL(m, e) && (EFROM(m, e) == v || ETO(m, e) == v)) r = 1;
  return r;
}
static inline _Bool spec_edge_used(const TK *m, int e) {     /* some live face lists a halfedge of e */
  _Bool r = 0;
  for (unsigned long f = 0; f < LF; f++) if (f < m->faces_.size && !FDEL(m, f))
    for (unsigned long k = 0; k < LFV; k++) if (k < FVAL(m, f) && (FHE(m, f, k) >> 1) == e) r = 1;
  return r;
}
static inline _Bool spec_face_used(const TK *m, int f) {     /* some live cell lists a halfface of f */
  _Bool r = 0;
  for (unsigned long c = 0; c < LC; c++) if (c < m->cells_.size && !CDEL(m, c))
    for (unsigned long k = 0; k < LCV; k++) if (k < CVAL(m, c) && (CHF(m, c, k) >> 1) == f) r = 1;
  return r;
}

/* ------------------------------------------------------------------ contract of reorder_incident_halffaces, as a stub
 * (assume-guarantee: callers are verified against this text; the real function is verified against the same
 * contract in obligations/reorder.py). requires: both caches the function indexes are enabled, edge in range.
 * ensures: the incident-halfface lists of the edge's two halfedges are permuted (multiset preserved); nothing
 * else changes. */
static inline void reorder_contract_effect(TK *m, int e) {
#ifndef NATIVE_REPLAY
  if (!(e >= 0 && (unsigned long)(2 * e + 1) < m->incident_hfs_per_he_.size)) return;
  for (int s = 0; s < 2; s++) {
    int he = 2 * e + s;
    int old[LINC];
    unsigned long n = INCN(m, he);
    __CPROVER_assume(n <= LINC);
    for (unsigned long k = 0; k < LINC; k++) if (k < n) { old[k] = INC(m, he, k); m->incident_hfs_per_he_.data[he].data[k].idx_ = nondet_int(); }
    for (unsigned long hf = 0; hf < 2 * LF; hf++) {
      unsigned long a = 0, b = 0;
      for (unsigned long k = 0; k < LINC; k++) if (k < n) { if (old[k] == (int)hf) a++; if (INC(m, he, k) == (int)hf) b++; }
      __CPROVER_assume(a == b);
    }
    for (unsigned long k = 0; k < LINC; k++) if (k < n) __CPROVER_assume(INC(m, he, k) >= 0 && (unsigned long)INC(m, he, k) < 2 * LF);
  }
#endif
}

/* standing assumption of the properties: no halfface is listed by two different live cells */
static inline _Bool spec_cells_disjoint(const TK *m) {
  _Bool ok = 1;
  for (unsigned long c = 0; c < LC; c++) if (c < m->cells_.size && !CDEL(m, c))
    for (unsigned long k = 0; k < LCV; k++) if (k < CVAL(m, c))
      for (unsigned long c2 = 0; c2 < LC; c2++) if (c2 < m->cells_.size && c2 != c && !CDEL(m, c2))
        for (unsigned long k2 = 0; k2 < LCV; k2++) if (k2 < CVAL(m, c2)) ok &= CHF(m, c, k) != CHF(m, c2, k2);
  return ok;
}
