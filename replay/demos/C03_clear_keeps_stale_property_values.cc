// C03: "every live property ... has exactly one element per entity slot. New entities start with the property's default value".
// clear(true) (the default) turns the properties private but leaves their storages at the old size, so a handle that
// outlives the clear() has elements for entities that no longer exist, and the first entities added afterwards inherit
// the values of the old ones instead of the default.
#include <OpenVolumeMesh/Mesh/PolyhedralMesh.hh>
#include <iostream>
using namespace OpenVolumeMesh;
int main() {
  GeometricPolyhedralMeshV3d m;
  auto a = m.add_vertex({0,0,0}); m.add_vertex({1,0,0}); m.add_vertex({0,1,0});
  auto p = m.request_vertex_property<int>("p", 7);
  p[a] = 42;
  m.clear();                                   // clear(true)
  std::cout << "after clear(): n_vertices " << m.n_vertices() << ", property size " << p.size() << " (expected 0)\n";
  int bad = p.size() != m.n_vertices();
  auto v = m.add_vertex({5,5,5});
  std::cout << "new vertex " << v.idx() << ": property value " << p[v] << " (default 7 expected), size " << p.size() << "\n";
  bad += p[v] != 7;
  return bad ? 1 : 0;
}
