#!/bin/sh
# Build a demo against /repo's current sources (all library sources compiled with -D_GLIBCXX_ASSERTIONS so that
# out-of-range container accesses abort) and run it. usage: run_demo.sh <demo.cc> [repo]   exit: the demo's exit code
set -e
DEMO="$1"; REPO="${2:-/repo}"; SAN=""; [ -n "$ASAN" ] && SAN="-fsanitize=address -fno-omit-frame-pointer"; HERE="$(cd "$(dirname "$0")" && pwd)"
OUT="$(mktemp -d)"; trap 'rm -rf "$OUT"' EXIT
mkdir -p "$OUT/inc/OpenVolumeMesh/Config"
cp "$HERE/../../build/inc/OpenVolumeMesh/Config/"*.hh "$OUT/inc/OpenVolumeMesh/Config/" 2>/dev/null || cp "$REPO/_build/src/OpenVolumeMesh/Config/"*.hh "$OUT/inc/OpenVolumeMesh/Config/"
grep -o 'OpenVolumeMesh/[A-Za-z0-9_/]*\.cc' "$REPO/src/CMakeLists.txt" | sort -u > "$OUT/list"
N=0
for f in $(cat "$OUT/list"); do
  N=$((N+1))
  g++ -std=c++17 -O1 -g -DNDEBUG -D_GLIBCXX_ASSERTIONS $SAN -w -I"$REPO/src" -I"$OUT/inc" -c "$REPO/src/$f" -o "$OUT/o$N.o" &
  [ $((N % 16)) -eq 0 ] && wait
done
wait
g++ -std=c++17 -O1 -g -DNDEBUG -D_GLIBCXX_ASSERTIONS $SAN -w -I"$REPO/src" -I"$OUT/inc" -I"$HERE" "$DEMO" "$OUT"/o*.o -o "$OUT/demo"
set +e
"$OUT/demo"; echo "demo exit code: $?"
