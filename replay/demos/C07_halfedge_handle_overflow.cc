// C07: "every stored handle designates an existing entity ... no use of an out-of-range handle".
// internal_read_file admits n_edges up to INT_MAX, but halfedge handles are 2*e+side: with more than 2^30 edges the
// handle 2^31 wraps to a negative int in HalfEdgeHandle::from_unsigned. HEAVY: writes a 2.1 GB file to the directory
// given as argv[1] (default /tmp) and needs about 10 GB of memory. Exit 0 = the file is rejected cleanly.
#include <OpenVolumeMesh/Mesh/PolyhedralMesh.hh>
#include <OpenVolumeMesh/IO/ovmb_read.hh>
#include <cstdio>
#include <cstdint>
#include <string>
#include <vector>
#include <fstream>
#include <iostream>
using namespace OpenVolumeMesh;
static void u(std::string &s, uint64_t v, int n) { for (int i = 0; i < n; ++i) s.push_back((char)((v >> (8 * i)) & 0xff)); }
static void chunk(std::ofstream &f, const char *type, const std::string &payload) {
  std::string h(type, 4); size_t pad = (8 - payload.size() % 8) % 8;
  h.push_back(0); h.push_back((char)pad); h.push_back(0); h.push_back(1); u(h, payload.size() + pad, 8);
  f.write(h.data(), h.size()); f.write(payload.data(), payload.size()); f.write("\0\0\0\0\0\0\0\0", pad);
}
int main(int argc, char **argv) {
  const uint64_t NE = (1ull << 30) + 1;
  std::string path = std::string(argc > 1 ? argv[1] : "/tmp") + "/ovm_handle_overflow.ovmb";
  {
    std::ofstream f(path, std::ios::binary);
    std::string hd("OVMB\n\r\n\xff", 8); hd.push_back(1); hd.push_back(1); hd.push_back(3); hd.push_back(0); u(hd, 0, 4); u(hd, 3, 8); u(hd, NE, 8); u(hd, 1, 8); u(hd, 0, 8);
    f.write(hd.data(), hd.size());
    { std::string p; u(p, 0, 8); u(p, 3, 4); p.push_back(2); u(p, 0, 3); for (int i = 0; i < 9; ++i) u(p, 0, 8); chunk(f, "VERT", p); }     // 3 vertices, doubles
    const uint64_t PER = 1ull << 26;
    for (uint64_t first = 0; first < NE; first += PER) {
      uint64_t cnt = std::min(PER, NE - first);
      std::string p; p.reserve(24 + 2 * cnt); u(p, first, 8); u(p, cnt, 4); p.push_back(1); p.push_back(2); p.push_back(0); p.push_back(1); u(p, 0, 8);
      for (uint64_t e = 0; e < cnt; ++e) { p.push_back((char)((first + e) % 3)); p.push_back((char)((first + e + 1) % 3)); }
      chunk(f, "TOPO", p);
    }
    { std::string p; u(p, 0, 8); u(p, 1, 4); p.push_back(2); p.push_back(3); p.push_back(0); p.push_back(4); u(p, 0, 8);
      u(p, 1ull << 31, 4); u(p, 2, 4); u(p, 4, 4); chunk(f, "TOPO", p); }                                                                 // one face; its first halfedge handle is 2^31
    chunk(f, "EOF ", "");
  }
  std::cout << "file written, reading ...\n" << std::flush;
  GeometricPolyhedralMeshV3d m;
  auto res = IO::ovmb_read(path.c_str(), m);       // with the defect: from_unsigned(2^31) is a negative handle, add_face indexes edges_ with it
  std::remove(path.c_str());
  std::cout << "read result " << (int)res << ", edges " << m.n_edges() << ", faces " << m.n_faces() << "\n";
  return res == IO::ReadResult::Ok ? 1 : 0;
}
