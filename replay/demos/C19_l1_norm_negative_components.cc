// C19: "norms ... agree with their component-wise definitions". The L1 (Manhattan) norm is the sum of absolute values.
#include <OpenVolumeMesh/Geometry/VectorT.hh>
#include <iostream>
using namespace OpenVolumeMesh;
int main() {
  Vec3d a(-1.0, 2.0, -3.0); Vec3i b(-1, -1, -1);
  std::cout << "l1_norm(-1,2,-3) = " << a.l1_norm() << " (expected 6), mean = " << a.mean() << " (expected -0.666..), mean_abs = " << a.mean_abs() << "\n";
  std::cout << "l1_norm(-1,-1,-1) = " << b.l1_norm() << " (expected 3)\n";
  bool ok = a.l1_norm() == 6.0 && b.l1_norm() == 3 && a.mean() == (-1.0 + 2.0 + -3.0) / 3 && Vec3ui(1, 2, 3).l1_norm() == 6u;
  return ok ? 0 : 1;
}
