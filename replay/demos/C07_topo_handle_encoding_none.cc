// C07/C18: a TOPO edge chunk whose handle_encoding is None (0) carries no handles, yet is accepted and counted as
// `count` edges read; a following face chunk may then name halfedges of edges that were never added.
#include <OpenVolumeMesh/Mesh/PolyhedralMesh.hh>
#include <OpenVolumeMesh/IO/ovmb_write.hh>
#include <OpenVolumeMesh/IO/ovmb_read.hh>
#include <sstream>
#include <iostream>
#include "ovmb_craft.hh"
using namespace OpenVolumeMesh;
int main() {
  GeometricPolyhedralMeshV3d m;
  auto v0 = m.add_vertex({0,0,0}), v1 = m.add_vertex({1,0,0}), v2 = m.add_vertex({0,1,0});
  m.add_face({v0, v1, v2});
  std::stringstream ss; IO::ovmb_write(ss, m);
  std::string hdr; auto cs = split(ss.str(), hdr);
  int patched = 0;
  for (auto &c : cs) if (c.type == "TOPO" && (uint8_t)c.body[12] == 1) {
    std::string p = payload(c).substr(0, 24); p[15] = 0;       // handle_encoding = None, no handle bytes
    set_payload(c, p); patched++;
  }
  if (patched != 1) { std::cout << "could not find the edge chunk\n"; return 2; }
  std::stringstream in(join(hdr, cs)); GeometricPolyhedralMeshV3d r;
  std::cout << "reading crafted file (edge chunk with handle_encoding None)...\n" << std::flush;
  auto res = IO::ovmb_read(in, r);      // with the defect: add_face is called with halfedges of non-existent edges (aborts under _GLIBCXX_ASSERTIONS)
  std::cout << "read result " << (int)res << " edges " << r.n_edges() << " faces " << r.n_faces() << "\n";
  return res == IO::ReadResult::Ok ? 1 : 0;
}
