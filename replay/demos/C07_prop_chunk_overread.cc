// C07: "reading terminates without undefined behaviour (no out-of-bounds read ...)". A PROP chunk whose span announces
// more elements than its payload holds: SimplePropCodec::decode_n reads every element with the unchecked Decoder
// primitives and runs past the end of the chunk buffer. Run with ASAN=1 replay/demos/run_demo.sh (heap-buffer-overflow).
#include <OpenVolumeMesh/Mesh/PolyhedralMesh.hh>
#include <OpenVolumeMesh/IO/ovmb_write.hh>
#include <OpenVolumeMesh/IO/ovmb_read.hh>
#include <sstream>
#include <iostream>
#include "ovmb_craft.hh"
using namespace OpenVolumeMesh;
int main() {
  GeometricPolyhedralMeshV3d m;
  for (int i = 0; i < 4; ++i) m.add_vertex({double(i), 0, 0});
  auto p = m.request_vertex_property<int>("p", 0); m.set_persistent(p);
  for (auto v : m.vertices()) p[v] = 100 + v.idx();
  std::stringstream ss; IO::ovmb_write(ss, m);
  std::string hdr; auto cs = split(ss.str(), hdr);
  int patched = 0;
  for (auto &c : cs) if (c.type == "PROP") { std::string pl = payload(c); std::cout << "PROP payload " << pl.size() << " bytes\n"; set_payload(c, pl.substr(0, 16 + 8)); patched++; }   // sub-header + 2 of the 4 ints
  if (patched != 1) { std::cout << "could not find the PROP chunk\n"; return 2; }
  std::stringstream in(join(hdr, cs)); GeometricPolyhedralMeshV3d r;
  std::cout << "reading the file whose PROP chunk holds 2 of the 4 announced values ...\n" << std::flush;
  auto res = IO::ovmb_read(in, r);
  std::cout << "read result " << (int)res << "\n";
  return res == IO::ReadResult::Ok ? 1 : 0;
}
