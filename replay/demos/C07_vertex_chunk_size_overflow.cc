// C07: read_vertices_chunk compares the remaining bytes with `span.count * pos_size` computed in 32 bits. A count of
// 178956971 with 24-byte positions gives 2^32 + 8, i.e. 8: a VERT chunk with an 8-byte body passes the size check and
// GeometryReaderT::read then reads 178956971 * 3 doubles from it. Needs about 5 GB (the mesh allocates the announced
// vertices first). Run with ASAN=1 replay/demos/run_demo.sh: heap-buffer-overflow in Decoder::dbl.
#include <OpenVolumeMesh/Mesh/PolyhedralMesh.hh>
#include <OpenVolumeMesh/IO/ovmb_read.hh>
#include <sstream>
#include <iostream>
#include <cstdint>
using namespace OpenVolumeMesh;
static void u(std::string &s, uint64_t v, int n) { for (int i = 0; i < n; ++i) s.push_back((char)((v >> (8 * i)) & 0xff)); }
static void chunk(std::string &f, const char *type, const std::string &payload) {
  std::string h(type, 4); size_t pad = (8 - payload.size() % 8) % 8;
  h.push_back(0); h.push_back((char)pad); h.push_back(0); h.push_back(1); u(h, payload.size() + pad, 8);
  f += h + payload + std::string(pad, '\0');
}
int main() {
  const uint64_t N = 178956971;                     // N * 24 == 2^32 + 8
  std::string f("OVMB\n\r\n\xff", 8); f.push_back(1); f.push_back(1); f.push_back(3); f.push_back(0); u(f, 0, 4); u(f, N, 8); u(f, 0, 8); u(f, 0, 8); u(f, 0, 8);
  { std::string p; u(p, 0, 8); u(p, N, 4); p.push_back(2); u(p, 0, 3); u(p, 0, 8); chunk(f, "VERT", p); }      // span [0, N), doubles, 8 bytes of data
  chunk(f, "EOF ", "");
  std::cout << "file of " << f.size() << " bytes announcing " << N << " vertices, reading ...\n" << std::flush;
  std::stringstream in(f); GeometricPolyhedralMeshV3d m;
  auto res = IO::ovmb_read(in, m);
  std::cout << "read result " << (int)res << "\n";
  return res == IO::ReadResult::Ok ? 1 : 0;
}
