// C06: "writing a mesh without pending deletions to OVMB and reading the result back yields the same ... definitions".
// A face without halfedges (add_face({}, false)) or a cell without halffaces: the writer emits "fixed valence 0", which the
// format (and the reader) interpret as "variable valence" and then reject for the missing valence encoding.
#include <OpenVolumeMesh/Mesh/PolyhedralMesh.hh>
#include <OpenVolumeMesh/IO/ovmb_write.hh>
#include <OpenVolumeMesh/IO/ovmb_read.hh>
#include <sstream>
#include <iostream>
using namespace OpenVolumeMesh;
int main() {
  int bad = 0;
  { GeometricPolyhedralMeshV3d m; m.add_vertex({0,0,0});
    m.add_face(std::vector<HalfEdgeHandle>{}, false);
    std::stringstream ss; auto wr = IO::ovmb_write(ss, m);
    GeometricPolyhedralMeshV3d r; IO::ReadOptions opt; opt.topology_check = false;      // with the topology check an element without sub-elements is refused as invalid topology
    auto res = IO::ovmb_read(ss, r, opt);
    std::cout << "empty face: write " << (int)wr << " read " << (int)res << " faces " << r.n_faces() << "\n";
    if (wr == IO::WriteResult::Ok && !(res == IO::ReadResult::Ok && r.n_faces() == 1)) bad++; }
  { GeometricPolyhedralMeshV3d m; m.add_vertex({0,0,0});
    m.add_cell(std::vector<HalfFaceHandle>{}, false);
    std::stringstream ss; auto wr = IO::ovmb_write(ss, m);
    GeometricPolyhedralMeshV3d r; IO::ReadOptions opt; opt.topology_check = false;
    auto res = IO::ovmb_read(ss, r, opt);
    std::cout << "empty cell: write " << (int)wr << " read " << (int)res << " cells " << r.n_cells() << "\n";
    if (wr == IO::WriteResult::Ok && !(res == IO::ReadResult::Ok && r.n_cells() == 1)) bad++; }
  return bad ? 1 : 0;
}
