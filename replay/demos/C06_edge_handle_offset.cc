// C06: "every other encoding ... non-zero handle offsets ... reads to that same mesh".
// Re-encode the edge TOPO chunk of a writer-produced file with handle_offset = 1 (stored handles reduced by one).
#include <OpenVolumeMesh/Mesh/PolyhedralMesh.hh>
#include <OpenVolumeMesh/IO/ovmb_write.hh>
#include <OpenVolumeMesh/IO/ovmb_read.hh>
#include <sstream>
#include <iostream>
#include "ovmb_craft.hh"
using namespace OpenVolumeMesh;
int main() {
  GeometricPolyhedralMeshV3d m;
  auto v0 = m.add_vertex({0,0,0}), v1 = m.add_vertex({1,0,0}), v2 = m.add_vertex({0,1,0}), v3 = m.add_vertex({0,0,1});
  (void)v0; m.add_edge(v1, v2); m.add_edge(v2, v3); m.add_edge(v3, v1);
  std::stringstream ss; IO::ovmb_write(ss, m);
  std::string hdr; auto cs = split(ss.str(), hdr);
  int patched = 0;
  for (auto &c : cs) if (c.type == "TOPO" && (uint8_t)c.body[12] == 1) {
    std::string p = payload(c); int henc = (uint8_t)p[15]; int sz = henc == 1 ? 1 : henc == 2 ? 2 : 4;
    wr(p, 16, 8, 1);                                           // handle_offset = 1
    for (size_t at = 24; at + sz <= p.size(); at += sz) wr(p, at, sz, rd(p, at, sz) - 1);
    set_payload(c, p); patched++;
  }
  if (patched != 1) { std::cout << "could not find the edge chunk\n"; return 2; }
  std::stringstream in(join(hdr, cs)); GeometricPolyhedralMeshV3d r; auto res = IO::ovmb_read(in, r);
  std::cout << "read result " << (int)res << " edges " << r.n_edges() << "\n";
  if (res != IO::ReadResult::Ok) { std::cout << "file with handle_offset=1 rejected\n"; return 1; }
  int bad = 0;
  for (auto e : m.edges()) if (r.edge(e).from_vertex() != m.edge(e).from_vertex() || r.edge(e).to_vertex() != m.edge(e).to_vertex()) {
    std::cout << "edge " << e.idx() << ": expected (" << m.edge(e).from_vertex().idx() << "," << m.edge(e).to_vertex().idx() << ") read (" << r.edge(e).from_vertex().idx() << "," << r.edge(e).to_vertex().idx() << ")\n"; bad++; }
  return bad ? 1 : 0;
}
