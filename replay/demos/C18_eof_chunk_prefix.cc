#include <OpenVolumeMesh/Mesh/TetrahedralMesh.hh>
#include <OpenVolumeMesh/IO/ovmb_write.hh>
#include <OpenVolumeMesh/IO/ovmb_read.hh>
#include <sstream>
#include <iostream>
using namespace OpenVolumeMesh;
int main(){
  GeometricTetrahedralMeshV3d m;
  auto v0=m.add_vertex({0,0,0}),v1=m.add_vertex({1,0,0}),v2=m.add_vertex({0,1,0}),v3=m.add_vertex({0,0,1});
  m.add_cell(v0,v1,v2,v3);
  std::stringstream ss; auto wr=IO::ovmb_write(ss,m);
  std::string bytes=ss.str(); std::cout<<"written "<<bytes.size()<<" bytes, result "<<(int)wr<<"\n";
  int accepted=0;
  for(size_t n=0;n<bytes.size();++n){ std::stringstream in(bytes.substr(0,n)); GeometricTetrahedralMeshV3d r; auto res=IO::ovmb_read(in,r); if(res==IO::ReadResult::Ok){ std::cout<<"strict prefix of "<<n<<" bytes ACCEPTED\n"; accepted++; } }
  return accepted?1:0;
}
