// helpers for crafting OVMB files in the demos: split a writer-produced file into its chunks and re-assemble it
#pragma once
#include <string>
#include <vector>
#include <cstdint>
struct Chunk { std::string type; uint8_t version, padding, compression, flags; std::string body; /* payload + padding */ };
static inline uint64_t rd(const std::string &s, size_t at, int n) { uint64_t v = 0; for (int i = n - 1; i >= 0; --i) v = (v << 8) | (uint8_t)s[at + i]; return v; }
static inline void wr(std::string &s, size_t at, int n, uint64_t v) { for (int i = 0; i < n; ++i) s[at + i] = (char)((v >> (8 * i)) & 0xff); }
static inline std::vector<Chunk> split(const std::string &file, std::string &header) {
  header = file.substr(0, 48); std::vector<Chunk> out; size_t at = 48;
  while (at + 16 <= file.size()) { Chunk c; c.type = file.substr(at, 4); c.version = file[at + 4]; c.padding = file[at + 5]; c.compression = file[at + 6]; c.flags = file[at + 7];
    uint64_t len = rd(file, at + 8, 8); c.body = file.substr(at + 16, len); out.push_back(c); at += 16 + len; }
  return out;
}
static inline std::string join(const std::string &header, const std::vector<Chunk> &cs) {
  std::string f = header;
  for (auto &c : cs) { std::string h(16, '\0'); for (int i = 0; i < 4; ++i) h[i] = c.type[i]; h[4] = c.version; h[5] = c.padding; h[6] = c.compression; h[7] = c.flags; wr(h, 8, 8, c.body.size()); f += h + c.body; }
  return f;
}
// set the payload of a chunk (re-padding to a multiple of 8 with zero bytes)
static inline void set_payload(Chunk &c, const std::string &payload) { size_t pad = (8 - payload.size() % 8) % 8; c.body = payload + std::string(pad, '\0'); c.padding = (uint8_t)pad; }
static inline std::string payload(const Chunk &c) { return c.body.substr(0, c.body.size() - c.padding); }
