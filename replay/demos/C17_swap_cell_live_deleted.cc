#include <OpenVolumeMesh/Mesh/PolyhedralMesh.hh>
#include <iostream>
using namespace OpenVolumeMesh;
int main(){
  TopologyKernel m;   // defaults: deferred + fast deletion, all bottom-up incidences
  VH v0=m.add_vertex(), v1=m.add_vertex(), v2=m.add_vertex(), v3=m.add_vertex();
  FH f0=m.add_face({v0,v1,v2}), f1=m.add_face({v0,v2,v3}), f2=m.add_face({v0,v3,v1}), f3=m.add_face({v1,v3,v2});
  std::vector<HFH> hfs={f0.halfface_handle(1),f1.halfface_handle(1),f2.halfface_handle(1),f3.halfface_handle(1)};
  CH c0=m.add_cell(hfs,true);
  m.delete_cell(c0);
  CH c1=m.add_cell(hfs,true);
  std::cout<<"c0="<<c0.idx()<<" c1="<<c1.idx()<<" deleted(c0)="<<m.is_deleted(c0)<<"\n";
  m.swap_cell_indices(c1, c0);
  std::cout<<"n_cells="<<m.n_cells()<<"\n";
  int bad=0;
  for(auto hf: hfs){ CH c=m.incident_cell(hf); std::cout<<"incident_cell("<<hf.idx()<<")="<<c.idx()<<"\n"; if(c!=CH(0)) bad++; }
  std::cout<<(bad?"BROKEN":"OK")<<"\n"; return bad?1:0;
}
