// Native replayer: injects a witness pre-state (layout of spec/wf.h witness()) into the REAL library built
// from /repo with -DOVM_VERIF, runs the real operation, and prints the post-state in the same layout.
// Unity build: includes the repository sources directly.
#include <OpenVolumeMesh/Core/Handles.cc>
#include <OpenVolumeMesh/Core/BaseEntities.cc>
#include <OpenVolumeMesh/Core/ResourceManager.cc>
#include <OpenVolumeMesh/Core/TopologyKernel.cc>
#include <OpenVolumeMesh/Core/Iterators.cc>
#include <OpenVolumeMesh/Core/Properties/PropertyStorageBase.cc>
#include <OpenVolumeMesh/Core/detail/internal_type_name.cc>
#include <OpenVolumeMesh/FileManager/TypeNames.cc>
#include <OpenVolumeMesh/Mesh/TetrahedralMeshTopologyKernel.cc>
#include <OpenVolumeMesh/Mesh/TetrahedralMeshIterators.cc>
#include <OpenVolumeMesh/Mesh/HexahedralMeshTopologyKernel.cc>
#include <OpenVolumeMesh/Mesh/HexahedralMeshIterators.cc>
#include <cstdio>
#include <cstdlib>
#include <cstring>
#include <string>
#include <vector>
#include <iostream>

using namespace OpenVolumeMesh;

namespace ovm_verif {
struct Access {
    static void inject(TopologyKernel &m, const std::vector<int> &w, int LV, int LE, int LF, int LC, int LFV, int LCV, int LOUT, int LINC,
                       std::vector<int> &gv, std::vector<int> &ge, std::vector<int> &ghe, std::vector<int> &gf, std::vector<int> &ghf, std::vector<int> &gc,
                       int args[4]) {
        size_t p = 0;
        auto nx = [&]() { return w.at(p++); };
        int nv = nx(), ne = nx(), nf = nx(), nc = nx();
        m.v_bottom_up_ = nx(); m.e_bottom_up_ = nx(); m.f_bottom_up_ = nx(); m.deferred_deletion_ = nx(); m.fast_deletion_ = nx();
        m.n_deleted_vertices_ = nx(); m.n_deleted_edges_ = nx(); m.n_deleted_faces_ = nx(); m.n_deleted_cells_ = nx();
        args[0] = nx(); args[1] = nx(); args[2] = nx();
        m.n_vertices_ = nv;
        m.edges_.clear(); m.edge_deleted_.clear();
        for (int e = 0; e < LE; e++) { int a = nx(), b = nx(), d = nx(); if (e < ne) { m.edges_.emplace_back(VH(a), VH(b)); m.edge_deleted_.push_back(d != 0); } }
        m.vertex_deleted_.clear(); gv.clear();
        for (int v = 0; v < LV; v++) { int d = nx(), g = nx(); if (v < nv) { m.vertex_deleted_.push_back(d != 0); gv.push_back(g); } }
        m.faces_.clear(); m.face_deleted_.clear();
        for (int f = 0; f < LF; f++) { int d = nx(), n = nx(); std::vector<HEH> hes; for (int k = 0; k < LFV; k++) { int h = nx(); if (k < n) hes.push_back(HEH(h)); }
            if (f < nf) { m.faces_.emplace_back(hes); m.face_deleted_.push_back(d != 0); } }
        m.cells_.clear(); m.cell_deleted_.clear();
        for (int c = 0; c < LC; c++) { int d = nx(), n = nx(); std::vector<HFH> hfs; for (int k = 0; k < LCV; k++) { int h = nx(); if (k < n) hfs.push_back(HFH(h)); }
            if (c < nc) { m.cells_.emplace_back(hfs); m.cell_deleted_.push_back(d != 0); } }
        int no = nx(); m.outgoing_hes_per_vertex_.clear();
        for (int v = 0; v < LV; v++) { int n = nx(); std::vector<HEH> l; for (int k = 0; k < LOUT; k++) { int h = nx(); if (k < n) l.push_back(HEH(h)); } if (v < no) m.outgoing_hes_per_vertex_.push_back(l); }
        int ni = nx(); m.incident_hfs_per_he_.clear();
        for (int h = 0; h < 2 * LE; h++) { int n = nx(); std::vector<HFH> l; for (int k = 0; k < LINC; k++) { int x = nx(); if (k < n) l.push_back(HFH(x)); } if (h < ni) m.incident_hfs_per_he_.push_back(l); }
        int nic = nx(); m.incident_cell_per_hf_.clear();
        for (int h = 0; h < 2 * LF; h++) { int c = nx(); if (h < nic) m.incident_cell_per_hf_.push_back(CH(c)); }
        ge.clear(); ghe.clear(); gf.clear(); ghf.clear(); gc.clear();
        for (int e = 0; e < LE; e++) { int g = nx(); if (e < ne) ge.push_back(g); }
        for (int e = 0; e < 2 * LE; e++) { int g = nx(); if (e < 2 * ne) ghe.push_back(g); }
        for (int f = 0; f < LF; f++) { int g = nx(); if (f < nf) gf.push_back(g); }
        for (int f = 0; f < 2 * LF; f++) { int g = nx(); if (f < 2 * nf) ghf.push_back(g); }
        for (int c = 0; c < LC; c++) { int g = nx(); if (c < nc) gc.push_back(g); }
        args[3] = nx();
    }
    static void dump(const TopologyKernel &m, int LV, int LE, int LF, int LC, int LFV, int LCV, int LOUT, int LINC,
                     const std::vector<int> &gv, const std::vector<int> &ge, const std::vector<int> &ghe, const std::vector<int> &gf, const std::vector<int> &ghf, const std::vector<int> &gc,
                     int args[4], std::vector<int> &w) {
        w.clear();
        auto P = [&](long v) { w.push_back((int)v); };
        P(m.n_vertices_); P(m.edges_.size()); P(m.faces_.size()); P(m.cells_.size());
        P(m.v_bottom_up_); P(m.e_bottom_up_); P(m.f_bottom_up_); P(m.deferred_deletion_); P(m.fast_deletion_);
        P(m.n_deleted_vertices_); P(m.n_deleted_edges_); P(m.n_deleted_faces_); P(m.n_deleted_cells_);
        P(args[0]); P(args[1]); P(args[2]);
        for (int e = 0; e < LE; e++) { bool in = (size_t)e < m.edges_.size(); P(in ? m.edges_[EH(e)].from_vertex().idx() : -9); P(in ? m.edges_[EH(e)].to_vertex().idx() : -9); P(in && (size_t)e < m.edge_deleted_.size() ? (int)m.edge_deleted_[EH(e)] : -9); }
        for (int v = 0; v < LV; v++) { bool in = (size_t)v < m.n_vertices_; P(in && (size_t)v < m.vertex_deleted_.size() ? (int)m.vertex_deleted_[VH(v)] : -9); P(in && (size_t)v < gv.size() ? gv[v] : -9); }
        for (int f = 0; f < LF; f++) { bool in = (size_t)f < m.faces_.size(); P(in && (size_t)f < m.face_deleted_.size() ? (int)m.face_deleted_[FH(f)] : -9);
            size_t n = in ? m.faces_[FH(f)].halfedges().size() : 0; P(in ? (long)n : -9); for (int k = 0; k < LFV; k++) P((in && (size_t)k < n) ? m.faces_[FH(f)].halfedges()[k].idx() : -9); }
        for (int c = 0; c < LC; c++) { bool in = (size_t)c < m.cells_.size(); P(in && (size_t)c < m.cell_deleted_.size() ? (int)m.cell_deleted_[CH(c)] : -9);
            size_t n = in ? m.cells_[CH(c)].halffaces().size() : 0; P(in ? (long)n : -9); for (int k = 0; k < LCV; k++) P((in && (size_t)k < n) ? m.cells_[CH(c)].halffaces()[k].idx() : -9); }
        P(m.outgoing_hes_per_vertex_.size());
        for (int v = 0; v < LV; v++) { bool in = (size_t)v < m.outgoing_hes_per_vertex_.size(); size_t n = in ? m.outgoing_hes_per_vertex_[VH(v)].size() : 0; P(in ? (long)n : -9);
            for (int k = 0; k < LOUT; k++) P((in && (size_t)k < n) ? m.outgoing_hes_per_vertex_[VH(v)][k].idx() : -9); }
        P(m.incident_hfs_per_he_.size());
        for (int h = 0; h < 2 * LE; h++) { bool in = (size_t)h < m.incident_hfs_per_he_.size(); size_t n = in ? m.incident_hfs_per_he_[HEH(h)].size() : 0; P(in ? (long)n : -9);
            for (int k = 0; k < LINC; k++) P((in && (size_t)k < n) ? m.incident_hfs_per_he_[HEH(h)][k].idx() : -9); }
        P(m.incident_cell_per_hf_.size());
        for (int h = 0; h < 2 * LF; h++) P((size_t)h < m.incident_cell_per_hf_.size() ? m.incident_cell_per_hf_[HFH(h)].idx() : -9);
        for (int e = 0; e < LE; e++) P((size_t)e < ge.size() ? ge[e] : -9);
        for (int e = 0; e < 2 * LE; e++) P((size_t)e < ghe.size() ? ghe[e] : -9);
        for (int f = 0; f < LF; f++) P((size_t)f < gf.size() ? gf[f] : -9);
        for (int f = 0; f < 2 * LF; f++) P((size_t)f < ghf.size() ? ghf[f] : -9);
        for (int c = 0; c < LC; c++) P((size_t)c < gc.size() ? gc[c] : -9);
        P(args[3]);
    }
    // protected operations
    static int delete_vertex_core(TopologyKernel &m, int a) { return m.delete_vertex_core(VH(a)).cur_handle().idx(); }
    static int delete_edge_core(TopologyKernel &m, int a) { return m.delete_edge_core(EH(a)).cur_handle().idx(); }
    static int delete_face_core(TopologyKernel &m, int a) { return m.delete_face_core(FH(a)).cur_handle().idx(); }
    static int delete_cell_core(TopologyKernel &m, int a) { return m.delete_cell_core(CH(a)).cur_handle().idx(); }
    static void reorder(TopologyKernel &m, int a) { m.reorder_incident_halffaces(EH(a)); }
};
}

template <class Prop> static void set_prop(Prop &p, const std::vector<int> &g) {
    size_t i = 0;
    for (auto it = p.begin(); it != p.end() && i < g.size(); ++it, ++i) *it = g[i];
}
template <class Prop> static void get_prop(Prop &p, std::vector<int> &g) {
    g.clear();
    for (auto it = p.begin(); it != p.end(); ++it) g.push_back(*it);
}

int main(int argc, char **argv) {
    if (argc < 3) { fprintf(stderr, "usage: native_main <op> <wfile> [kernel]\n"); return 2; }
    std::string op = argv[1];
    FILE *f = fopen(argv[2], "r");
    if (!f) return 2;
    int LV, LE, LF, LC, LFV, LCV, LOUT, LINC; long n;
    if (fscanf(f, "%d %d %d %d %d %d %d %d %ld", &LV, &LE, &LF, &LC, &LFV, &LCV, &LOUT, &LINC, &n) != 9) return 2;
    std::vector<int> w(n);
    for (long i = 0; i < n; i++) if (fscanf(f, "%d", &w[i]) != 1) return 2;
    std::vector<int> extra; int x;
    while (fscanf(f, "%d", &x) == 1) extra.push_back(x);      // list arguments (add_face / add_cell ...)
    fclose(f);
    TopologyKernel m;
    std::vector<int> gv, ge, ghe, gf, ghf, gc; int args[4];
    ovm_verif::Access::inject(m, w, LV, LE, LF, LC, LFV, LCV, LOUT, LINC, gv, ge, ghe, gf, ghf, gc, args);
    const int GD = -77;
    auto pv = m.request_vertex_property<int>("ovm_ghost_v", GD);
    auto pe = m.request_edge_property<int>("ovm_ghost_e", GD);
    auto phe = m.request_halfedge_property<int>("ovm_ghost_he", GD);
    auto pf = m.request_face_property<int>("ovm_ghost_f", GD);
    auto phf = m.request_halfface_property<int>("ovm_ghost_hf", GD);
    auto pc = m.request_cell_property<int>("ovm_ghost_c", GD);
    set_prop(pv, gv); set_prop(pe, ge); set_prop(phe, ghe); set_prop(pf, gf); set_prop(phf, ghf); set_prop(pc, gc);
    int ret = 0, ret2 = 0; bool exc = false; std::vector<int> retlist;
    try {
        int a = args[0], b = args[1];
        if (op == "swap_cell") m.swap_cell_indices(CH(a), CH(b));
        else if (op == "swap_face") m.swap_face_indices(FH(a), FH(b));
        else if (op == "swap_edge") m.swap_edge_indices(EH(a), EH(b));
        else if (op == "swap_vertex") m.swap_vertex_indices(VH(a), VH(b));
        else if (op == "swap_cell2") { m.swap_cell_indices(CH(a), CH(b)); m.swap_cell_indices(CH(a), CH(b)); }
        else if (op == "swap_face2") { m.swap_face_indices(FH(a), FH(b)); m.swap_face_indices(FH(a), FH(b)); }
        else if (op == "swap_edge2") { m.swap_edge_indices(EH(a), EH(b)); m.swap_edge_indices(EH(a), EH(b)); }
        else if (op == "swap_vertex2") { m.swap_vertex_indices(VH(a), VH(b)); m.swap_vertex_indices(VH(a), VH(b)); }
        else if (op == "delete_vertex") ret = m.delete_vertex(VH(a)).cur_handle().idx();
        else if (op == "delete_edge") ret = m.delete_edge(EH(a)).cur_handle().idx();
        else if (op == "delete_face") ret = m.delete_face(FH(a)).cur_handle().idx();
        else if (op == "delete_cell") ret = m.delete_cell(CH(a)).cur_handle().idx();
        else if (op == "delete_vertex_core") ret = ovm_verif::Access::delete_vertex_core(m, a);
        else if (op == "delete_edge_core") ret = ovm_verif::Access::delete_edge_core(m, a);
        else if (op == "delete_face_core") ret = ovm_verif::Access::delete_face_core(m, a);
        else if (op == "delete_cell_core") ret = ovm_verif::Access::delete_cell_core(m, a);
        else if (op == "collect_garbage") m.collect_garbage();
        else if (op == "enable_deferred_deletion") m.enable_deferred_deletion(a != 0);
        else if (op == "add_vertex") ret = m.add_vertex().idx();
        else if (op == "add_edge") ret = m.add_edge(VH(a), VH(b), args[2] != 0).idx();
        else if (op == "add_face") { std::vector<HEH> l; for (int v : extra) l.push_back(HEH(v)); ret = m.add_face(l, a != 0).idx(); }
        else if (op == "add_face_v") { std::vector<VH> l; for (int v : extra) l.push_back(VH(v)); ret = m.add_face(l).idx(); }
        else if (op == "add_cell") { std::vector<HFH> l; for (int v : extra) l.push_back(HFH(v)); ret = m.add_cell(l, a != 0).idx(); }
        else if (op == "clear") m.clear(a != 0);
        else if (op == "enable_v") m.enable_vertex_bottom_up_incidences(a != 0);
        else if (op == "enable_e") m.enable_edge_bottom_up_incidences(a != 0);
        else if (op == "enable_f") m.enable_face_bottom_up_incidences(a != 0);
        else if (op == "reorder") ovm_verif::Access::reorder(m, a);
        else if (op == "find_halfedge") ret = m.find_halfedge(VH(a), VH(b)).idx();
        else if (op == "find_halfedge_in_cell") ret = m.find_halfedge_in_cell(VH(a), VH(b), CH(args[2])).idx();
        else if (op == "find_halfface_v") { std::vector<VH> l; for (int v : extra) l.push_back(VH(v)); ret = m.find_halfface(l).idx(); }
        else if (op == "find_halfface_he") { std::vector<HEH> l; for (int v : extra) l.push_back(HEH(v)); ret = m.find_halfface(l).idx(); }
        else if (op == "find_halfface_extensive") { std::vector<VH> l; for (int v : extra) l.push_back(VH(v)); ret = m.find_halfface_extensive(l).idx(); }
        else if (op == "find_halfface_in_cell") { std::vector<VH> l; for (int v : extra) l.push_back(VH(v)); ret = m.find_halfface_in_cell(l, CH(a)).idx(); }
        else if (op == "get_halfface_vertices") { for (auto v : m.get_halfface_vertices(HFH(a))) retlist.push_back(v.idx()); }
        else if (op == "get_halfface_vertices_vh") { for (auto v : m.get_halfface_vertices(HFH(a), VH(b))) retlist.push_back(v.idx()); }
        else if (op == "get_halfface_vertices_heh") { for (auto v : m.get_halfface_vertices(HFH(a), HEH(b))) retlist.push_back(v.idx()); }
        else if (op == "is_incident") ret = m.is_incident(FH(a), EH(b));
        else if (op == "n_vertices_in_cell") ret = (int)m.n_vertices_in_cell(CH(a));
        else if (op == "next_halfedge_in_halfface") ret = m.next_halfedge_in_halfface(HEH(a), HFH(b)).idx();
        else if (op == "prev_halfedge_in_halfface") ret = m.prev_halfedge_in_halfface(HEH(a), HFH(b)).idx();
        else if (op == "prev_next") ret = m.prev_halfedge_in_halfface(m.next_halfedge_in_halfface(HEH(a), HFH(b)), HFH(b)).idx();
        else if (op == "halfface_view") { for (auto h : m.halfface(HFH(a)).halfedges()) retlist.push_back(h.idx()); }
        else if (op == "halfedge_view") { auto e = m.halfedge(HEH(a)); retlist.push_back(e.from_vertex().idx()); retlist.push_back(e.to_vertex().idx()); }
        else if (op == "incident_cell") ret = m.incident_cell(HFH(a)).idx();
        else if (op == "valence_v") ret = (int)m.valence(VH(a));
        else if (op == "valence_e") ret = (int)m.valence(EH(a));
        else if (op == "is_boundary_hf") ret = m.is_boundary(HFH(a));
        else if (op == "is_boundary_f") ret = m.is_boundary(FH(a));
        else if (op == "is_boundary_e") ret = m.is_boundary(EH(a));
        else if (op == "is_boundary_he") ret = m.is_boundary(HEH(a));
        else if (op == "is_boundary_v") ret = m.is_boundary(VH(a));
        else if (op == "is_boundary_c") ret = m.is_boundary(CH(a));
        else if (op == "adjacent_halfface_in_cell") ret = m.adjacent_halfface_in_cell(HFH(a), HEH(b)).idx();
        else if (op == "none") {}
        else { fprintf(stderr, "unknown op %s\n", op.c_str()); return 2; }
    } catch (std::exception &e) { exc = true; }
    get_prop(pv, gv); get_prop(pe, ge); get_prop(phe, ghe); get_prop(pf, gf); get_prop(phf, ghf); get_prop(pc, gc);
    std::vector<int> out;
    args[2] = ret; args[3] = exc ? 1 : 0;
    ovm_verif::Access::dump(m, LV, LE, LF, LC, LFV, LCV, LOUT, LINC, gv, ge, ghe, gf, ghf, gc, args, out);
    printf("POST %d %d %d %d %d %d %d %d %zu", LV, LE, LF, LC, LFV, LCV, LOUT, LINC, out.size());
    for (int v : out) printf(" %d", v);
    printf("\n");
    printf("RETLIST"); for (int v : retlist) printf(" %d", v); printf("\n");
    return 0;
}
