"""Native replay of a CBMC counterexample of a mesh-state obligation (DESIGN 4.2):
 (a) the REAL library, built from /repo's working tree with -DOVM_VERIF, runs the operation on the witness
     pre-state; the harness' POST section (same text as under CBMC) is evaluated on (pre, real post);
 (b) the extracted C text runs natively on the same witness ('pinned' run of the verified text).
confirmed  <=> (a) fails an assertion or the real code crashes."""
import os, re, subprocess, json, hashlib, sys
ROOT = os.path.dirname(os.path.dirname(os.path.abspath(__file__)))
sys.path.insert(0, os.path.dirname(os.path.abspath(__file__)))
import witness
REPO = os.environ.get('OVM_REPO', '/repo')

def build_real(log):
    import run
    sh = run.src_hash() + hashlib.sha256(open(os.path.join(ROOT, 'replay', 'native_main.cc'), 'rb').read()).hexdigest()[:8]
    outdir = os.path.join(ROOT, 'build', 'native'); os.makedirs(outdir, exist_ok=True)
    exe = os.path.join(outdir, 'native_main.' + sh)
    if os.path.exists(exe): return exe
    for old in os.listdir(outdir):
        if old.startswith('native_main.'): os.remove(os.path.join(outdir, old))
    run.ensure_inc()
    cmd = ['g++', '-std=c++17', '-O1', '-g', '-DNDEBUG', '-DOVM_VERIF', '-D_GLIBCXX_ASSERTIONS', '-w', '-I' + REPO + '/src', '-I' + os.path.join(ROOT, 'build', 'inc'),
           os.path.join(ROOT, 'replay', 'native_main.cc'), '-o', exe]
    r = subprocess.run(cmd, stdout=subprocess.PIPE, stderr=subprocess.STDOUT, timeout=900)
    open(log, 'a').write('$ ' + ' '.join(cmd) + '\n' + r.stdout.decode(errors='replace'))
    if r.returncode != 0: raise RuntimeError('native build failed: ' + r.stdout.decode(errors='replace')[-1500:])
    return exe

def wfile(path, defs, w, extra=()):
    L = [int(defs[k]) for k in ('LV', 'LE', 'LF', 'LC', 'LFV', 'LCV', 'LOUT', 'LINC')]
    n = max(w) + 1 if w else 0
    vals = [w.get(i, 0) for i in range(n)]
    open(path, 'w').write(' '.join(map(str, L)) + ' %d\n' % n + ' '.join(map(str, vals)) + '\n' + ' '.join(map(str, extra)) + '\n')
    return vals

def run_real(exe, op, wpath):
    r = subprocess.run([exe, op, wpath], stdout=subprocess.PIPE, stderr=subprocess.PIPE, timeout=120)
    out = r.stdout.decode(errors='replace')
    m = re.search(r'^POST ((?:-?\d+ ?)+)$', out, re.M)
    if r.returncode != 0 or not m:
        return None, 'real library terminated abnormally (rc=%d%s)' % (r.returncode, ', signal %d' % -r.returncode if r.returncode < 0 else '')
    nums = list(map(int, m.group(1).split()))
    rl = re.search(r'^RETLIST ((?:-?\d+ ?)*)$', out, re.M)
    run_real.retlist = list(map(int, rl.group(1).split())) if rl else []
    return nums[9:], None

def replay(ob, r, trace, d):
    mh = getattr(ob, 'mesh_harness', None)
    if mh is None: return {'confirmed': False, 'reason': 'obligation family has no native replay harness'}
    w = witness.parse_trace(trace)
    if not w: return {'confirmed': False, 'reason': 'no witness array in the CBMC trace'}
    defs = ob.defines
    state = witness.decode(w, defs)
    log = r['log']
    extra = []
    if mh.list_arg:
        m = re.findall(r'ovm_list\[(\d+)l?\]=(-?\d+)', trace); ln = re.findall(r'ovm_list_n=(-?\d+)', trace)
        lv = {}
        for i, v in m: lv[int(i)] = int(v)
        n = int(ln[-1]) if ln else 0
        extra = [lv.get(i, 0) for i in range(max(n, 0))]
    pre = os.path.join(d, 'pre.w'); vals = wfile(pre, defs, w, extra)
    res = {'confirmed': False, 'witness': state, 'list_arg': extra, 'op': mh.op}
    exe = build_real(log)
    post, err = run_real(exe, mh.op, pre)
    post2 = None
    if err is None and mh.op2:
        post2, err2 = run_real(exe, mh.op2, pre)
    # checker: extracted text + spec + POST section, natively
    src = os.path.join(d, 'native_check.c')
    stubs = open(os.path.join(d, 'h.c')).read()
    # reuse h.c up to the harness, replacing CBMC primitives
    head = stubs[:stubs.index('#define ARG(i) nondet_int()')]
    prim = '''
#include <stdio.h>
#define NATIVE_REPLAY 1
static int n_fail;
#define __CPROVER_assert(c, name) do { if (!(c)) { printf("FAIL %s\\n", name); n_fail++; } } while (0)
#define __CPROVER_assume(c) do { if (!(c)) { printf("ASSUME-VIOLATED %s\\n", #c); } } while (0)
int nondet_int(void) { return 0; } unsigned long nondet_ulong(void) { return 0; } _Bool nondet_bool(void) { return 0; }
'''
    main = '''
static int *readw(const char *p) { FILE *f = fopen(p, "r"); if (!f) return 0; int L[8]; long n; for (int i = 0; i < 8; i++) fscanf(f, "%d", &L[i]); fscanf(f, "%ld", &n);
  int *w = malloc(sizeof(int) * (n + 1)); for (long i = 0; i < n; i++) fscanf(f, "%d", &w[i]);
  if (XLIST_N == 0) { int x; while (XLIST_N < 64 && fscanf(f, "%d", &x) == 1) XLIST[XLIST_N++] = x; }
  fclose(f); return w; }
int main(int argc, char **argv) { MODE_REAL = argv[1][0] == 'r'; W_PRE = readw(argv[2]);
  { FILE *rf = fopen("ret.list", "r"); int x; if (rf) { while (XRET_N < 8 && fscanf(rf, "%d", &x) == 1) XRET[XRET_N++] = x; fclose(rf); } } W_POST = argc > 3 ? readw(argv[3]) : 0; W_POST2 = argc > 4 ? readw(argv[4]) : 0;
  native_check(); printf("DONE %d\\n", n_fail); return 0; }
'''
    open(src, 'w').write(prim + head.replace('#include "gen.c"', '#include "gen.c"') + mh.native_text() + main)
    exe2 = os.path.join(d, 'native_check')
    cc = subprocess.run(['gcc', '-O0', '-g', '-w', '-I', ROOT, src, '-o', exe2], stdout=subprocess.PIPE, stderr=subprocess.STDOUT, timeout=300, cwd=d)
    open(log, 'a').write(cc.stdout.decode(errors='replace'))
    if cc.returncode != 0:
        res['reason'] = 'native checker did not compile: ' + cc.stdout.decode(errors='replace')[-800:]; return res
    def runchk(args):
        rr = subprocess.run([exe2] + args, stdout=subprocess.PIPE, stderr=subprocess.PIPE, timeout=120, cwd=d)
        o = rr.stdout.decode(errors='replace')
        return dict(rc=rr.returncode, failed=re.findall(r'^FAIL (.*)$', o, re.M), assume_violated=re.findall(r'^ASSUME-VIOLATED (.*)$', o, re.M), done='DONE' in o)
    if err is not None:
        res['real'] = {'crash': err}; res['confirmed'] = True
    else:
        p1 = os.path.join(d, 'post.w'); open(p1, 'w').write(' '.join(str(defs[k]) for k in ('LV', 'LE', 'LF', 'LC', 'LFV', 'LCV', 'LOUT', 'LINC')) + ' %d\n' % len(post) + ' '.join(map(str, post)) + '\n')
        a = ['real', pre, p1]
        open(os.path.join(d, 'ret.list'), 'w').write(' '.join(map(str, getattr(run_real, 'retlist', []))) + '\n')
        if post2 is not None:
            p2 = os.path.join(d, 'post2.w'); open(p2, 'w').write(' '.join(str(defs[k]) for k in ('LV', 'LE', 'LF', 'LC', 'LFV', 'LCV', 'LOUT', 'LINC')) + ' %d\n' % len(post2) + ' '.join(map(str, post2)) + '\n')
            a.append(p2)
        res['real'] = runchk(a)
        res['confirmed'] = bool(res['real']['failed']) and not res['real']['assume_violated']
    res['extracted_text_native'] = runchk(['extracted', pre])
    if not res['confirmed']:
        if res['extracted_text_native'].get('failed') or not res['extracted_text_native'].get('done'):
            res['reason'] = 'real library passes on the witness but the extracted text fails natively: extraction/model discrepancy'
        else:
            res['reason'] = 'neither the real library nor the natively executed extracted text fails on the witness: tool discrepancy (DESIGN 2.13)'
    return res
