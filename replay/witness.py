"""decode the ovm_w witness array of a CBMC trace (layout: spec/wf.h witness())"""
import re, json
def parse_trace(trace):
    w = {}
    for m in re.finditer(r'ovm_w\[(\d+)l?\]=(-?\d+)', trace):
        w[int(m.group(1))] = int(m.group(2))
    return w
def decode(w, d):
    LV, LE, LF, LC, LFV, LCV, LOUT, LINC = (int(d[k]) for k in ('LV', 'LE', 'LF', 'LC', 'LFV', 'LCV', 'LOUT', 'LINC'))
    p = [0]
    def nx():
        v = w.get(p[0], 0); p[0] += 1; return v
    s = {}
    s['nv'], s['ne'], s['nf'], s['nc'] = nx(), nx(), nx(), nx()
    s['flags'] = dict(v=nx(), e=nx(), f=nx(), deferred=nx(), fast=nx())
    s['n_deleted'] = [nx(), nx(), nx(), nx()]
    s['args'] = [nx(), nx(), nx()]
    s['edges'] = [dict(zip(('from', 'to', 'deleted'), (nx(), nx(), nx()))) for e in range(LE)][:max(s['ne'], 0)]
    vs = [dict(deleted=nx(), ghost=nx()) for v in range(LV)]; s['vertices'] = vs[:max(s['nv'], 0)]
    fs = []
    for f in range(LF):
        dl, n = nx(), nx(); hes = [nx() for k in range(LFV)]; fs.append(dict(deleted=dl, halfedges=hes[:max(n, 0)]))
    s['faces'] = fs[:max(s['nf'], 0)]
    cs = []
    for c in range(LC):
        dl, n = nx(), nx(); hfs = [nx() for k in range(LCV)]; cs.append(dict(deleted=dl, halffaces=hfs[:max(n, 0)]))
    s['cells'] = cs[:max(s['nc'], 0)]
    n = nx(); out = []
    for v in range(LV):
        k = nx(); l = [nx() for i in range(LOUT)]; out.append(l[:max(k, 0)])
    s['outgoing'] = out[:max(n, 0)]
    n = nx(); inc = []
    for h in range(2 * LE):
        k = nx(); l = [nx() for i in range(LINC)]; inc.append(l[:max(k, 0)])
    s['incident_hfs'] = inc[:max(n, 0)]
    n = nx(); ic = [nx() for h in range(2 * LF)]; s['incident_cell'] = ic[:max(n, 0)]
    s['ghost_e'] = [nx() for e in range(LE)][:max(s['ne'], 0)]
    s['ghost_he'] = [nx() for e in range(2 * LE)][:2 * max(s['ne'], 0)]
    s['ghost_f'] = [nx() for e in range(LF)][:max(s['nf'], 0)]
    s['ghost_hf'] = [nx() for e in range(2 * LF)][:2 * max(s['nf'], 0)]
    s['ghost_c'] = [nx() for e in range(LC)][:max(s['nc'], 0)]
    s['args'].append(nx())
    return s
if __name__ == '__main__':
    import sys
    d = dict(a.split('=') for a in sys.argv[2:])
    print(json.dumps(decode(parse_trace(open(sys.argv[1]).read()), d), indent=1))
